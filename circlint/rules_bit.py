"""BIT-TAGGED, BIT-DELEGATION, BIT-STATE, MOD-WINDOW, EPOCH-ARITH (DESIGN.md 4.4) on engine C."""
import re
from .facts import AnalysisError
from .report import RuleResult
from .bitabs import W, Interp, Unknown, bits_str, deps, mask
from .sym import norm
from .mir import Callee

T = "ebr_impl::pointers::Tagged::<T>::"
S = "utils::State::"
M = "utils::Modular::<WIDTH>::"
E = "ebr_impl::epoch::Epoch::"


def V(name, i, neg=False):
    return ("v", name, i, neg)


def tagged(word):
    return {"__adt": "ebr_impl::pointers::Tagged", "ptr": word}


def ref(x):
    return ("ref", x)


def expect_bits(r, rule_fn, label, got, want, loc=None):
    """want: list of expected bit abstractions (None = don't care)"""
    ok = got.bits is not None and len(got.bits) >= len(want) and all(
        w is None or g == w for g, w in zip(got.bits, want))
    r.instance(label, ok)
    if not ok:
        bad = [i for i, (g, w) in enumerate(zip(got.bits or [], want)) if w is not None and g != w][:4]
        r.violate(rule_fn, label.split(" [")[0], "bit-level result differs from the specification at bit(s) %s: got %s" % (
            bad, bits_str(got.bits)[:200] if got.bits else "?"), loc)
    return ok


def rule_bit_tagged(ctx):
    r = RuleResult("BIT-TAGGED", ["C11", "C08", "C19"],
                   "for every alignment 2^k: with_tag/tag round-trip the tag truncated to k bits and keep the address; "
                   "with_high_tag/high_tag touch only bits 60..63; as_raw clears both; is_null/ptr_eq ignore the epoch bits")
    prog = ctx.prog
    HW = prog.const_value("ebr_impl::pointers::HIGH_TAG_WIDTH")
    HP = 64 - HW
    tier = getattr(ctx, "tier", "quick")
    ks = list(range(0, 30)) if tier == "thorough" else [0, 1, 2, 3, 4, 12, 29]
    r.notes.append("alignments 2^k analysed: k in %s" % ks)
    loc = prog.body(T + "with_tag").loc(0)
    funcs = set()
    for k in ks:
        it = Interp(prog, align=1 << k)
        p = W.sym("p", 64)
        q = W.sym("q", 64)
        t = W.sym("t", 64)
        e = W.sym("e", 64)
        tag_lbl = " [align 2^%d]" % k
        try:
            # 1 with_tag
            res = it.call(T + "with_tag", [ref(tagged(p)), t])["ptr"]
            expect_bits(r, T + "with_tag", "with_tag(p,t) = t[0..k) ++ p[k..64)" + tag_lbl, res,
                        [V("t", i) if i < k else V("p", i) for i in range(64)], loc)
            # 2 tag
            res = it.call(T + "tag", [ref(tagged(p))])
            expect_bits(r, T + "tag", "tag(p) = p[0..k)" + tag_lbl, res, [V("p", i) if i < k else 0 for i in range(64)], loc)
            # 3 with_high_tag
            res = it.call(T + "with_high_tag", [ref(tagged(p)), e])["ptr"]
            expect_bits(r, T + "with_high_tag", "with_high_tag(p,e) = p[0..60) ++ e[0..4)" + tag_lbl, res,
                        [V("p", i) if i < HP else V("e", i - HP) for i in range(64)], loc)
            # 4 high_tag
            res = it.call(T + "high_tag", [ref(tagged(p))])
            expect_bits(r, T + "high_tag", "high_tag(p) = p[60..64)" + tag_lbl, res,
                        [V("p", i + HP) if i < HW else 0 for i in range(64)], loc)
            # 5 as_raw
            res = it.call(T + "as_raw", [ref(tagged(p))])
            expect_bits(r, T + "as_raw", "as_raw(p) = p[k..60) elsewhere 0" + tag_lbl, res,
                        [V("p", i) if k <= i < HP else 0 for i in range(64)], loc)
            # 6 is_null depends exactly on bits k..59
            res = it.call(T + "is_null", [ref(tagged(p))])
            want = frozenset(("p", i) for i in range(k, HP))
            ok = res.eq is not None and deps(res.bits[0]) == want
            r.instance("is_null(p) depends exactly on p[k..60)" + tag_lbl, ok)
            if not ok:
                r.violate(T + "is_null", "is_null", "is_null depends on bits %s (expected the address bits only)" % sorted(
                    deps(res.bits[0]) ^ want)[:6], loc)
            # 7 ptr_eq compares exactly bits 0..59
            res = it.call(T + "ptr_eq", [tagged(p), tagged(q)])
            ok = res.eq is not None
            if ok:
                op, a, b = res.eq
                ok = op == "Eq" and all((a[i] == V("p", i) and b[i] == V("q", i)) if i < HP else (a[i] == 0 and b[i] == 0)
                                        for i in range(64))
            r.instance("ptr_eq(p,q) == (p[0..60) == q[0..60))" + tag_lbl, ok)
            if not ok:
                r.violate(T + "ptr_eq", "ptr_eq", "ptr_eq does not compare exactly address and tag bits (0..59), ignoring the "
                          "epoch bits", loc)
            # 8 compositions
            wt = it.call(T + "with_tag", [ref(tagged(p)), t])
            res = it.call(T + "tag", [ref(wt)])
            expect_bits(r, T + "with_tag", "tag(with_tag(p,t)) = t mod 2^k" + tag_lbl, res,
                        [V("t", i) if i < k else 0 for i in range(64)], loc)
            res = it.call(T + "as_raw", [ref(wt)])
            expect_bits(r, T + "with_tag", "as_raw(with_tag(p,t)) = as_raw(p)" + tag_lbl, res,
                        [V("p", i) if k <= i < HP else 0 for i in range(64)], loc)
            wh = it.call(T + "with_high_tag", [ref(tagged(p)), e])
            res = it.call(T + "tag", [ref(wh)])
            expect_bits(r, T + "with_high_tag", "tag(with_high_tag(p,e)) = tag(p)" + tag_lbl, res,
                        [V("p", i) if i < k else 0 for i in range(64)], loc)
            res = it.call(T + "as_raw", [ref(wh)])
            expect_bits(r, T + "with_high_tag", "as_raw(with_high_tag(p,e)) = as_raw(p)" + tag_lbl, res,
                        [V("p", i) if k <= i < HP else 0 for i in range(64)], loc)
            res = it.call(T + "ptr_eq", [wh, tagged(p)])
            ok = res.cst == 1
            r.instance("ptr_eq(with_high_tag(p,e), p) is true" + tag_lbl, ok)
            if not ok:
                r.violate(T + "ptr_eq", "stamp-invisible", "a stamped pointer is not ptr_eq to the unstamped one", loc)
            # tagged / stamped null is null
            null = W.const(0, 64)
            n1 = it.call(T + "with_tag", [ref(tagged(null)), t])
            n2 = it.call(T + "with_high_tag", [ref(n1), e])
            res = it.call(T + "is_null", [ref(n2)])
            ok = res.cst == 1
            r.instance("is_null(with_high_tag(with_tag(null,t),e)) is true" + tag_lbl, ok)
            if not ok:
                r.violate(T + "is_null", "null", "a tagged or stamped null is not null", loc)
        except Unknown as ex:
            raise AnalysisError("BIT-TAGGED [align 2^%d]: %s" % (k, ex))
        funcs |= it.funcs
    r.functions |= funcs
    r.require(len(ks) * 13, len(ks) * 13, "specs x alignments")
    return r


ACCESS = {"is_null": "is_null", "tag": "tag", "with_tag": "with_tag", "ptr_eq": "ptr_eq"}


def _word_of_arg(t, k):
    """is `t` the `.ptr` of argument k (through refs, derefs, loads)?"""
    from .sym import strip
    t = strip(t)
    while isinstance(t, tuple) and t[0] in ("ref", "load", "deref"):
        t = strip(t[1])
    if not (isinstance(t, tuple) and t[0] == "field" and t[1] == "ptr"):
        return False
    x = strip(t[2])
    while isinstance(x, tuple) and x[0] in ("ref", "load", "deref"):
        x = strip(x[1])
    return isinstance(x, tuple) and x[0] == "arg" and x[1] == k


def _delegation_operands(ctx, b, meth, want):
    from .sym import strip
    ps = [p for p in ctx.ex.paths(b) if p.exit[0] == "return"]
    if len(ps) != 1:
        return False
    ret = strip(ps[0].ret)
    if meth == "with_tag":
        # the handle itself with its word replaced: `self.ptr = self.ptr.with_tag(tag); self` or a struct literal
        call = None
        if isinstance(ret, tuple) and ret[0] == "upd" and strip(ret[1]) == ("arg", 1, b.local_name(1)) and ret[2] == (("field", "ptr"),):
            call = strip(ret[3])
        elif isinstance(ret, tuple) and ret[0] == "agg" and ret[3]:
            call = strip(ret[3][0])
        if not (isinstance(call, tuple) and call[0] == "call" and norm(call[1]) == want and len(call[2]) == 2):
            return False
        tg = strip(call[2][1])
        return _word_of_arg(call[2][0], 1) and isinstance(tg, tuple) and tg[0] == "arg" and tg[1] == 2
    if not (isinstance(ret, tuple) and ret[0] == "call" and norm(ret[1]) == want):
        return False
    if meth == "ptr_eq":
        if len(ret[2]) != 2:
            return False
        return (_word_of_arg(ret[2][0], 1) and _word_of_arg(ret[2][1], 2)) or (_word_of_arg(ret[2][0], 2) and _word_of_arg(ret[2][1], 1))
    return len(ret[2]) == 1 and _word_of_arg(ret[2][0], 1)


def rule_bit_delegation(ctx):
    r = RuleResult("BIT-DELEGATION", ["C11"],
                   "the public accessors of Rc/Snapshot/Weak/WeakSnapshot (is_null, tag, with_tag, ptr_eq, deref, Pointer/"
                   "Debug formatting) reach the packed word only through the Tagged primitives")
    prog = ctx.prog
    HANDLES = {"strong::Rc::<T>::": "T", "strong::Snapshot::<'g, T>::": "'g, T", "weak::Weak::<T>::": "T",
               "weak::WeakSnapshot::<'g, T>::": "'g, T"}
    n = 0
    for pre in HANDLES:
        for meth in ("is_null", "tag", "with_tag", "ptr_eq"):
            name = pre + meth
            b = prog.body(name)
            r.functions.add(name)
            calls = [c for (_, _, c) in b.calls()]
            tg = [norm(c.target or "") for c in calls]
            want = "ebr_impl::pointers::Tagged::" + meth
            ok = tg == [want]
            # no arithmetic / comparison / cast on the pointer outside the primitive
            for bi in b.reachable():
                for st in b.blocks[bi]["stmts"]:
                    if st["k"] == "assign" and st["rv"]["k"] in ("binop", "unop"):
                        ok = False
                    if st["k"] == "assign" and st["rv"]["k"] == "cast" and "Pointer" in st["rv"]["kind"]:
                        ok = False
            n += 1
            r.instance("%s -> Tagged::%s only" % (name, meth), ok)
            if not ok:
                r.violate(name, meth, "does not go (only) through Tagged::%s (calls %s): the internal epoch bits may become "
                          "visible" % (meth, tg), b.loc(0))
                continue
            # ... applied to the handle's own word (and, for ptr_eq, the other handle's; for with_tag, the given tag), the
            # result handed back as it is (mutation sweep 3: `other.ptr.ptr_eq(other.ptr)`)
            okop = _delegation_operands(ctx, b, meth, want)
            r.instance("%s = Tagged::%s(self.ptr%s)" % (name, meth, {"ptr_eq": ", other.ptr", "with_tag": ", tag"}.get(meth, "")), okop)
            if not okop:
                r.violate(name, meth + "-operands", "Tagged::%s is not applied to this handle's own word%s, or its result is not "
                          "what is returned" % (meth, {"ptr_eq": " and the other handle's", "with_tag": " and the given tag"}.get(meth, "")),
                          b.loc(0))
    # formatting: Pointer/Debug of the six types go through Tagged's fmt (which formats as_raw())
    fm = ["<strong::Rc<T> as std::fmt::Pointer>::fmt", "<strong::Snapshot<'g, T> as std::fmt::Pointer>::fmt",
          "<weak::Weak<T> as std::fmt::Pointer>::fmt", "<weak::Weak<T> as std::fmt::Debug>::fmt",
          "<weak::WeakSnapshot<'g, T> as std::fmt::Pointer>::fmt", "<weak::WeakSnapshot<'g, T> as std::fmt::Debug>::fmt",
          "<strong::AtomicRc<T> as std::fmt::Pointer>::fmt", "<strong::AtomicRc<T> as std::fmt::Debug>::fmt",
          "<weak::AtomicWeak<T> as std::fmt::Pointer>::fmt", "<weak::AtomicWeak<T> as std::fmt::Debug>::fmt"]
    for name in fm:
        b = prog.body(name)
        r.functions.add(name)
        tg = [norm(c.target or "") for (_, _, c) in b.calls()]
        fmts = [t for t in tg if t.endswith("::fmt")]
        ok = bool(fmts) and all(t in ("<ebr_impl::pointers::Tagged<T> as std::fmt::Pointer>::fmt",
                                      "<ebr_impl::pointers::Tagged<T> as std::fmt::Debug>::fmt") for t in fmts)
        n += 1
        r.instance("%s formats through Tagged" % name, ok)
        if not ok:
            r.violate(name, "fmt", "formats the packed word directly (%s): the internal epoch bits become visible" % fmts, b.loc(0))
    for name in ("<ebr_impl::pointers::Tagged<T> as std::fmt::Pointer>::fmt", "<ebr_impl::pointers::Tagged<T> as std::fmt::Debug>::fmt"):
        b = prog.body(name)
        tg = [norm(c.target or "") for (_, _, c) in b.calls()]
        ok = "ebr_impl::pointers::Tagged::as_raw" in tg
        r.instance("%s prints as_raw()" % name, ok)
        n += 1
        if not ok:
            r.violate(name, "fmt", "Tagged's formatting does not go through as_raw()", b.loc(0))
    # deref through Tagged::deref / deref_mut -> as_raw
    for name in (T + "deref", T + "deref_mut"):
        b = prog.body(name)
        tg = [norm(c.target or "") for (_, _, c) in b.calls()]
        ok = "ebr_impl::pointers::Tagged::as_raw" in tg
        r.instance("%s dereferences as_raw()" % name, ok)
        n += 1
        if not ok:
            r.violate(name, "deref", "dereferences the packed word without stripping tag and epoch bits", b.loc(0))
    # no method or trait impl of the handle types observes the packed word as a whole: hashing, comparing or ordering `self.ptr`
    # through Tagged's own impls (Hash hashes all 64 bits) makes the epoch bits - which differ between two handles to one object
    # that came through links written in different epochs - visible (S-C11-8: Hash for Weak by `self.ptr.hash(state)`)
    ALLOWED_TAGGED_TRAITS = ("std::clone::Clone", "std::marker::Copy", "std::default::Default", "std::fmt::Debug", "std::fmt::Pointer",
                             "std::convert::From", "std::convert::Into")
    nraw = 0
    for name, b in sorted(prog.bodies.items()):
        isf = b.j.get("impl_self") or ""
        home = prog.home(name) if b.kind == "closure" else name
        hb = prog.bodies.get(home)
        isf = (hb.j.get("impl_self") or "") if hb is not None else isf
        if not isf.startswith(("strong::", "weak::")) or "::test" in name:
            continue
        for (bi, _, c) in b.calls():
            tg = c.target or ""
            m_ = re.match(r"^<ebr_impl::pointers::Tagged<[^>]*> as ([^>]+?)(?:<.*)?>::(\w+)$", tg)
            if not m_:
                continue
            nraw += 1
            okr = m_.group(1) in ALLOWED_TAGGED_TRAITS
            if not okr:
                r.instance("%s does not observe the packed word through Tagged's `%s`" % (name, m_.group(1)), False)
                r.violate(name, "raw-word:" + m_.group(2), "observes the whole packed word (`%s` of Tagged: all 64 bits, the internal "
                          "epoch bits included): two handles to one object that came through links written in different epochs "
                          "differ in it" % tg[:70], b.loc(bi))
    r.instance("no handle method observes the packed word as a whole (%d calls of Tagged trait impls, all of Clone/Default/Debug/Pointer/From)" % nraw, True)
    # inside Tagged itself, the packed field is tested for null (or turned into a reference) only after as_raw() stripped the tag
    # and epoch bits: `self.ptr.is_null()` on the packed word takes a tagged or stamped null for an object (S-C11-9: a new
    # Tagged::as_mut written that way)
    from .sym import strip, subterms
    NULLISH = ("std::ptr::mut_ptr::is_null", "std::ptr::const_ptr::is_null", "std::ptr::mut_ptr::as_ref", "std::ptr::mut_ptr::as_mut",
               "std::ptr::const_ptr::as_ref")
    npk = 0
    for name, b in sorted(prog.bodies.items()):
        home = prog.home(name) if b.kind == "closure" else name
        hb = prog.bodies.get(home)
        isf = (hb.j.get("impl_self") or "") if hb is not None else ""
        if not isf.startswith("ebr_impl::pointers::Tagged") or "::test" in name or b.kind == "closure":
            continue
        if not any(norm(c.target or "") in NULLISH for x in [b] + list(prog.closures_of(name)) for (_, _, c) in x.calls()):
            continue
        for p_ in ctx.ex.paths(b):
            for e in p_.events:
                if e.kind != "call" or (e.ntarget or "") not in NULLISH or not e.args:
                    continue
                a0 = e.args[0]
                stripped = any(x[0] == "call" and norm(x[1]) in ("ebr_impl::pointers::Tagged::as_raw", "ebr_impl::pointers::with_tag",
                                                                  "ebr_impl::pointers::low_bits") for x in subterms(a0)) or \
                    any(x[0] == "bin" and x[1] in ("BitAnd",) for x in subterms(a0))
                packed = any(x[0] == "field" and str(x[1]).endswith("ptr") for x in list(subterms(a0)) + [strip(a0)] if isinstance(x, tuple))
                npk += 1
                okp = stripped or not packed
                r.instance("%s: `%s` is applied to the stripped address" % (name.split("::")[-1], e.ntarget.split("::")[-1]), okp)
                if not okp:
                    r.violate(name, "packed-null-test", "`%s` is applied to the packed word (tag and epoch bits included): a null "
                              "pointer that carries a tag or a stamp is taken for an object" % e.ntarget, e.loc())
            break
    r.require(n, 30, "delegation instances")
    return r


FIELDS = ["EPOCH", "DESTRUCTED", "WEAKED", "WEAK", "STRONG"]


def rule_bit_state(ctx):
    r = RuleResult("BIT-STATE", ["C12"],
                   "count-word masks are disjoint, contiguous and cover 64 bits; each accessor reads exactly its field; each "
                   "with_* writes exactly its field; add_*/sub_* add a multiple of the field's unit")
    prog = ctx.prog
    C = {f: prog.const_value("utils::" + f) for f in FIELDS}
    COUNT = prog.const_value("utils::COUNT")
    WEAK_COUNT = prog.const_value("utils::WEAK_COUNT")
    loc = prog.body(S + "strong").loc(0)
    # layout
    allm = 0
    for f in FIELDS:
        m = C[f]
        contiguous = m != 0 and ((m >> ((m & -m).bit_length() - 1)) + 1) & (m >> ((m & -m).bit_length() - 1)) == 0
        ok = contiguous and (allm & m) == 0
        r.instance("mask %s = %#x contiguous and disjoint from the others" % (f, m), ok)
        if not ok:
            r.violate("utils::" + f, "layout", "mask %#x is not contiguous or overlaps another field" % m, loc)
        allm |= m
    ok = allm == mask(64)
    r.instance("masks cover all 64 bits", ok)
    if not ok:
        r.violate("utils", "layout", "the field masks do not cover the word (%#x)" % allm, loc)
    ok = COUNT == (C["STRONG"] & -C["STRONG"]) and WEAK_COUNT == (C["WEAK"] & -C["WEAK"])
    r.instance("COUNT / WEAK_COUNT are the lowest bits of STRONG / WEAK", ok)
    if not ok:
        r.violate("utils", "units", "COUNT or WEAK_COUNT is not the unit of its field", loc)

    def lo(m):
        return (m & -m).bit_length() - 1

    def width(m):
        return bin(m).count("1")
    it = Interp(prog)
    s = W.sym("s", 64)
    st = {"__adt": "utils::State", "inner": s}
    try:
        # accessors
        for name, f, outw in (("epoch", "EPOCH", 32), ("strong", "STRONG", 32), ("weak", "WEAK", 32)):
            res = it.call(S + name, [st])
            want = [V("s", i + lo(C[f])) if i < width(C[f]) else 0 for i in range(outw)]
            expect_bits(r, S + name, "%s(s) = s[%d..%d)" % (name, lo(C[f]), lo(C[f]) + width(C[f])), res, want, loc)
        for name, f in (("destructed", "DESTRUCTED"), ("weaked", "WEAKED")):
            byref = prog.body(S + name).local_ty(1).startswith("&")      # `fn weaked(&self)` today
            res = it.call(S + name, [ref(st) if byref else st])
            want = frozenset([("s", lo(C[f]))])
            ok = deps(res.bits[0]) == want and res.eq is not None and res.eq[0] == "Ne"
            r.instance("%s(s) = s[%d] != 0" % (name, lo(C[f])), ok)
            if not ok:
                r.violate(S + name, name, "does not test exactly its flag bit", loc)
        # with_epoch
        e = W.sym("e", 64)
        res = it.call(S + "with_epoch", [st, e])["inner"]
        want = [V("e", i - lo(C["EPOCH"])) if (C["EPOCH"] >> i) & 1 else V("s", i) for i in range(64)]
        expect_bits(r, S + "with_epoch", "with_epoch(s,e) writes exactly the epoch field (e mod 2^%d)" % width(C["EPOCH"]),
                    res, want, loc)
        for name, f in (("with_destructed", "DESTRUCTED"), ("with_weaked", "WEAKED")):
            for val in (0, 1):
                res = it.call(S + name, [st, W.const(val, 1)])["inner"]
                want = [val if i == lo(C[f]) else V("s", i) for i in range(64)]
                expect_bits(r, S + name, "%s(s,%s) writes exactly its flag" % (name, bool(val)), res, want, loc)
        # add/sub: linear forms
        v = W.sym("v", 32)
        for name, unit, sign in (("add_strong", COUNT, 1), ("sub_strong", COUNT, -1), ("add_weak", WEAK_COUNT, 1)):
            res = it.call(S + name, [st, v])["inner"]
            want = {"s": 1, "v": (sign * unit) & mask(64)}
            ok = res.lin == want
            r.instance("%s(s,v) = s %s v * %#x (mod 2^64)" % (name, "+" if sign > 0 else "-", unit), ok)
            if not ok:
                r.violate(S + name, name, "is not s %s v * unit of the field (got linear form %s)" % (
                    "+" if sign > 0 else "-", res.lin), loc)
        # as_raw / from_raw
        res = it.call(S + "as_raw", [it.call(S + "from_raw", [s])])
        ok = res.bits == s.bits
        r.instance("as_raw(from_raw(x)) = x", ok)
        if not ok:
            r.violate(S + "as_raw", "roundtrip", "from_raw/as_raw are not the identity", loc)
    except Unknown as ex:
        raise AnalysisError("BIT-STATE: %s" % ex)
    r.functions |= it.funcs
    if it.assumed:
        r.notes.append("debug assertions assumed to hold at: %s" % it.assumed)
    r.require(len(r.instances), 18, "state obligations")
    return r


def rule_mod_window(ctx):
    r = RuleResult("MOD-WINDOW", ["C12", "C02"],
                   "for every residue of the current epoch, every true age 0..64, symbolic large epochs and all small epochs: "
                   "le(stamp, curr - K_thr) implies age >= K_thr; ages in [K_thr, 2^W - 3] are classified old; max returns the "
                   "youngest stamp")
    prog = ctx.prog
    Wd = prog.const_value("utils::EPOCH_WIDTH")
    MOD = 1 << Wd
    # K_thr from the decision site (already normalised by CW-CASCADE-DECISION): read it from the MIR constant
    from .registry import run_rules
    dec = run_rules(ctx, ["CW-CASCADE-DECISION"])[0]
    kthr = None
    for inst in dec.instances:
        s = inst["instance"]
        if "curr - " in s and inst["ok"]:
            try:
                kthr = int(s.split("curr - ")[1].rstrip(")"))
            except ValueError:
                pass
    if kthr is None:
        raise AnalysisError("MOD-WINDOW: threshold at the decision site not available (CW-CASCADE-DECISION did not pass)")
    # the Modular used at the decision site is Modular<EPOCH_WIDTH>
    dg = prog.body("utils::dispose_general_node")
    for (bi, t, c) in dg.calls():
        if norm(c.target or "").startswith("utils::Modular::"):
            ca = c.const_args()
            if not ca or int(ca[0].get("int", -1)) != Wd:
                r.violate(dg.name, "width", "the modular space at the decision site is not Modular<EPOCH_WIDTH>", dg.loc(bi))
    tier = getattr(ctx, "tier", "quick")
    max_age = 64
    loc = prog.body(M + "le").loc(0)
    nobl = 0
    bad_young = bad_window = bad_max = None
    funcs = set()

    def configs():
        # large epochs: curr = MOD*K + c, K >= 1 symbolic (true age up to 64 needs curr >= age: K*MOD + c >= age holds
        # for K >= 4 when MOD=16; smaller K are covered by the concrete epochs below)
        for c in _residues(MOD):
            yield ("K", c)
        for e in range(0, 5 * min(MOD, 64) + 1):
            yield ("c", e)
    try:
        for (kind, c) in configs():
            for age in range(0, max_age + 1):
                if kind == "c" and age > c:
                    continue    # a stamp cannot be older than the clock
                it = Interp(prog, consts={"WIDTH": Wd})
                if kind == "K":
                    curr = W.affine(MOD, c)           # MOD*K + c with K >= 1 ... but age <= curr must hold:
                    # K >= ceil(age / MOD) is guaranteed by starting K at 1 only if age <= MOD + c; shift K
                    shift = (age + MOD - 1) // MOD
                    curr = W.affine(MOD, c + MOD * shift)
                    stamp_val = (c - age) % MOD
                else:
                    curr = W.const(c, 64, True)
                    stamp_val = (c - age) % MOD
                modu = it.call(M + "new", [binop_add(curr, 1)])
                stamp = W.const(stamp_val, 64, True)
                res = it.call(M + "le", [ref(modu), stamp, binop_add(curr, -kthr)])
                funcs |= it.funcs
                nobl += 1
                if res.cst is None:
                    raise Unknown("le undecided for curr=%s age=%d" % (curr, age))
                old = res.cst == 1
                if old and age < kthr:
                    bad_young = (kind, c, age)
                if not old and kthr <= age <= MOD - 3:
                    bad_window = (kind, c, age)
        # max + le end to end (the decision the cascade takes on a merged stamp): the merged stamp passes the age
        # test only if every merged stamp is truly old enough; if all are inside the unambiguous window it passes
        AGES = (0, 1, 2, 3, 4, 12, 13, 14, 15, 16, 18, 19, 35) if tier == "thorough" else \
            (0, 2, 3, 13, 14, 16, 18, 19)
        import itertools
        combos = list(itertools.product(AGES, repeat=3)) if tier == "thorough" else \
            [(a, b2, b2) for a in AGES for b2 in AGES] + [(0, 3, 7), (5, 1, 9), (13, 13, 2), (4, 4, 4)]
        MODc = min(MOD, 64)
        cfgs = [("K", x) for x in _residues(MOD)] + [("c", e) for e in range(0, 3 * MODc)]
        if tier == "thorough":
            cfgs = [("K", x) for x in _residues(MOD)] + [("c", e) for e in range(0, 2 * MODc + 4)]
        for (kind, c) in cfgs:
            for ages in combos:
                if kind == "c" and max(ages) > c:
                    continue
                it = Interp(prog, consts={"WIDTH": Wd})
                if kind == "K":
                    shift = (max(ages) + MOD - 1) // MOD
                    curr = W.affine(MOD, c + MOD * shift)
                else:
                    curr = W.const(c, 64, True)
                modu = it.call(M + "new", [binop_add(curr, 1)])
                stamps = [W.const((c - a) % MOD, 64, True) for a in ages]
                m = it.call(M + "max", [ref(modu), ref(stamps)])
                res = it.call(M + "le", [ref(modu), m, binop_add(curr, -kthr)])
                nobl += 1
                if res.cst is None or m.cst is None:
                    raise Unknown("max/le undecided for curr=%s ages=%s" % (curr, ages))
                old = res.cst == 1
                if old and min(ages) < kthr:
                    bad_max = ("merged stamp passes although an input has true age %d" % min(ages), kind, c, ages)
                if not old and all(kthr <= a <= MOD - 3 for a in ages):
                    bad_max = ("merged stamp of in-window old inputs does not pass", kind, c, ages)
    except Unknown as ex:
        raise AnalysisError("MOD-WINDOW: %s" % ex)
    r.functions |= funcs
    r.obligations += nobl
    r.discharged += nobl
    ok = bad_young is None
    r.instance("le(stamp, curr - %d) never holds for a true age < %d (%d configurations x ages)" % (kthr, kthr, nobl), ok)
    if not ok:
        r.discharged -= 1
        r.violate(M + "le", "too-young", "a stamp of true age %d is classified old enough (config %s)" % (bad_young[2], bad_young[:2]), loc)
    ok = bad_window is None
    r.instance("ages in [%d, %d] are classified old enough" % (kthr, MOD - 3), ok)
    if not ok:
        r.violate(M + "le", "window", "a stamp of true age %d in the unambiguous window is not classified old (config %s)" % (
            bad_window[2], bad_window[:2]), loc)
    ok = bad_max is None
    r.instance("le(max(stamps), curr - K_thr) holds only if every stamp is truly old; holds if all are in the window", ok)
    if not ok:
        r.violate(M + "max", "max", "%s (config %s)" % (bad_max[0], bad_max[1:]), loc)
    r.notes.append("K_thr=%d, W=%d; symbolic K for large epochs, concrete epochs 0..%d" % (kthr, Wd, 5 * MOD))
    return r


def _residues(MOD):
    """all residues of the clock modulo 2^W - for a wide stamp (a widened field) the 32 lowest and the 32 highest"""
    if MOD <= 64:
        return list(range(MOD))
    return list(range(32)) + list(range(MOD - 32, MOD))


def rule_mod_aging(ctx):
    """C06 promises a number of grace periods independent of the length for every chain whose links are `at least a few
    epochs old`.  The cascade decides on W-bit stamps that nothing ever ages: a stamp older than the window is read
    again modulo 2^W, and for the residues next to the current epoch it looks recent.  Such a node stops the cascade and
    waits its own grace periods; in a structure that grew while the clock ran (stamps spread over the residues) that is
    every few nodes.  This rule evaluates the window function for every residue and every true age and reports the
    ages >= K_thr that are classified `too recent`."""
    r = RuleResult("MOD-AGING", ["C06"],
                   "every stamp whose true age is at least the threshold is classified old enough by the cascade's test - also "
                   "ages beyond one wrap of the W-bit stamp (a chain that grew over many epochs is still reclaimed in one pass)")
    prog = ctx.prog
    Wd = prog.const_value("utils::EPOCH_WIDTH")
    MOD = 1 << Wd
    from .registry import run_rules
    dec = run_rules(ctx, ["CW-CASCADE-DECISION"])[0]
    kthr = None
    for inst in dec.instances:
        s_ = inst["instance"]
        if "curr - " in s_ and inst["ok"]:
            try:
                kthr = int(s_.split("curr - ")[1].rstrip(")"))
            except ValueError:
                pass
    if kthr is None:
        raise AnalysisError("MOD-AGING: threshold at the decision site not available (CW-CASCADE-DECISION did not pass)")
    loc = prog.body(M + "le").loc(0)
    recent = {}
    n = 0
    MAX_AGE = 64      # the quantifier of C12/C06: true ages 0..64
    try:
        for c in _residues(MOD):
            for age in range(kthr, MAX_AGE + 1):
                it = Interp(prog, consts={"WIDTH": Wd})
                shift = (age + MOD - 1) // MOD
                curr = W.affine(MOD, c + MOD * shift)
                modu = it.call(M + "new", [binop_add(curr, 1)])
                stamp = W.const((c - age) % MOD, 64, True)
                res = it.call(M + "le", [ref(modu), stamp, binop_add(curr, -kthr)])
                r.functions |= it.funcs
                n += 1
                if res.cst is None:
                    raise Unknown("le undecided for residue %d age %d" % (c, age))
                if res.cst != 1:
                    recent.setdefault(age % MOD, set()).add(age)
    except Unknown as ex:
        raise AnalysisError("MOD-AGING: %s" % ex)
    r.obligations += n
    r.discharged += n
    ok = not recent
    r.instance("every true age in [%d, %d] is classified old enough for every residue of the clock" % (kthr, MAX_AGE), ok)
    if not ok:
        r.discharged -= 1
        r.violate(M + "le", "never-aged", "stamps are never aged: a stamp whose true age is beyond the modular window is read "
                  "again modulo 2^W, and for the residues next to the current epoch it looks `too recent` to the cascade - such a "
                  "node is re-deferred for its own grace periods although it has been unreachable for longer than any reader can "
                  "be pinned; a chain or queue that grew while the clock ran pays this every few nodes, i.e. epochs proportional "
                  "to its length", loc)
        r.notes.append("W=%d: %d of the %d residues look too recent beyond the window (true ages congruent to %s modulo %d)" % (
            Wd, len(recent), MOD, sorted(recent), MOD))
    r.notes.append("K_thr=%d, W=%d, ages %d..%d x %d residues%s, symbolic large epochs" % (
        kthr, Wd, kthr, MAX_AGE, len(_residues(MOD)), "" if MOD <= 64 else " (sampled: the 32 lowest and 32 highest of %d)" % MOD))
    r.require(n, 16 * 10, "window evaluations")
    return r


def binop_add(w, k):
    from .bitabs import binop
    return binop("Add", w, W.const(k, 64, True))


def rule_epoch_arith(ctx):
    r = RuleResult("EPOCH-ARITH", ["C14"],
                   "Epoch: successor adds exactly one epoch (2) and keeps the pin bit; pinned/unpinned touch only bit 0; "
                   "is_pinned reads only bit 0; value drops it; wrapping_sub ignores bit 0 of both operands")
    prog = ctx.prog
    it = Interp(prog)
    d = W.sym("d", 64)
    g = W.sym("g", 64)
    ep = {"__adt": "ebr_impl::epoch::Epoch", "data": d}
    eg = {"__adt": "ebr_impl::epoch::Epoch", "data": g}
    loc = prog.body(E + "successor").loc(0)
    try:
        res = it.call(E + "successor", [ep])["data"]
        ok = res.lin == {"d": 1, 1: 2} and res.bits[0] == V("d", 0)
        r.instance("successor(d) = d + 2, bit 0 preserved", ok)
        if not ok:
            r.violate(E + "successor", "successor", "successor is not `+2 with the pin bit preserved` (%s)" % res.lin, loc)
        res = it.call(E + "pinned", [ep])["data"]
        expect_bits(r, E + "pinned", "pinned(d) = d | 1", res, [1] + [V("d", i) for i in range(1, 64)], loc)
        res = it.call(E + "unpinned", [ep])["data"]
        expect_bits(r, E + "unpinned", "unpinned(d) = d & !1", res, [0] + [V("d", i) for i in range(1, 64)], loc)
        res = it.call(E + "is_pinned", [ep])
        ok = deps(res.bits[0]) == frozenset([("d", 0)])
        r.instance("is_pinned(d) reads only bit 0", ok)
        if not ok:
            r.violate(E + "is_pinned", "is_pinned", "is_pinned depends on other bits", loc)
        res = it.call(E + "value", [ep])
        expect_bits(r, E + "value", "value(d) = d >> 1", res, [V("d", i + 1) for i in range(63)] + [0], loc)
        res = it.call(E + "wrapping_sub", [eg, ep])
        alld = frozenset().union(*[deps(b) for b in res.bits])
        ok = ("d", 0) not in alld and ("g", 0) not in alld and ("d", 1) in alld and ("g", 1) in alld
        r.instance("wrapping_sub(g,d) ignores bit 0 of both operands", ok)
        if not ok:
            r.violate(E + "wrapping_sub", "wrapping_sub", "the epoch difference depends on a pin bit", loc)
        # wrapping_sub on concrete epochs: (g - d) / 2
        for (a, b2) in ((10, 4), (4, 10), (7, 4), (6, 5), (0, 2)):
            res = it.call(E + "wrapping_sub", [{"__adt": "x", "data": W.const(a, 64)}, {"__adt": "x", "data": W.const(b2, 64)}])
            want = ((a & ~1) - (b2 & ~1)) // 2
            ok = res.sval() == want
            r.instance("wrapping_sub(%d,%d) = %d" % (a, b2, want), ok)
            if not ok:
                r.violate(E + "wrapping_sub", "value", "wrapping_sub(%d,%d) = %s, expected %d" % (a, b2, res.sval(), want), loc)
        res = it.call(E + "starting", [])["data"]
        ok = res.cst == 0
        r.instance("starting() = 0 (unpinned)", ok)
        if not ok:
            r.violate(E + "starting", "starting", "the starting epoch is not the unpinned zero", loc)
    except Unknown as ex:
        raise AnalysisError("EPOCH-ARITH: %s" % ex)
    r.functions |= it.funcs
    # the comparisons of Epoch values in pin (re-validation) and try_advance (pinned in another epoch?) are `==`/`!=` on
    # Epoch: they mean what the rules take them to mean only if Epoch's PartialEq is the field-wise one (pin bit included)
    from .sym import Exec as _Exec, strip as _strip, subterms as _subterms
    eqimpls = [x for x in prog.items["impls"] if x.get("self_adt") == "ebr_impl::epoch::Epoch" and x.get("trait") == "std::cmp::PartialEq"]
    eqb = prog.bodies.get("<ebr_impl::epoch::Epoch as std::cmp::PartialEq>::eq")
    okq = len(eqimpls) == 1 and eqb is not None
    if okq:
        ps_ = [p for p in _Exec(prog).paths(eqb) if p.exit[0] == "return"]
        okq = len(ps_) == 1
        if okq:
            rt = _strip(ps_[0].ret)

            def _is_data(t, k):
                t = _strip(t)
                while isinstance(t, tuple) and t[0] in ("load", "deref"):
                    t = _strip(t[1])
                return isinstance(t, tuple) and t[0] == "field" and str(t[1]).split(".")[-1] == "data" and \
                    any(y == ("arg", k, eqb.local_name(k)) for y in [_strip(t[2])] + list(_subterms(t[2])))
            okq = isinstance(rt, tuple) and rt[0] == "bin" and rt[1] == "Eq" and \
                ((_is_data(rt[2], 1) and _is_data(rt[3], 2)) or (_is_data(rt[2], 2) and _is_data(rt[3], 1)))
    r.instance("Epoch == Epoch is equality of the whole word (pin bit included)", okq)
    if not okq:
        r.violate(E + "eq", "eq", "Epoch's PartialEq is not the field-wise equality of `data`: `==`/`!=` between epochs (pin's "
                  "re-validation, try_advance's `pinned in another epoch?`) no longer compare what the protocol compares", loc)
    r.require(len(r.instances), 12, "epoch arithmetic obligations")
    return r
