import sys
from . import facts, mir, sym
if __name__ == "__main__":
    f = facts.load_facts(sys.argv[1]) if sys.argv[1].endswith(".json") else facts.build_facts()
    p = mir.Program(f)
    ex = sym.Exec(p)
    for pat in sys.argv[2:]:
        for n, b in p.bodies.items():
            if n.endswith(pat):
                ps = ex.paths(b)
                print("==", n, len(ps), "paths")
                for i, pa in enumerate(ps):
                    print(" -- path", i, pa.exit, "ret=", sym.show(pa.ret) if pa.ret else None)
                    for e in pa.events:
                        if e.kind == "bb": continue
                        print("     ", "  " * len(e.frame), repr(e))
