"""Property -> rules. A rule function takes the shared context and returns a RuleResult (or a
tuple of them). Results are cached per context so that a rule shared by several properties
is evaluated once per run."""
from . import rules_cw

RULES = {
    "CW-SITES": rules_cw.rule_sites,
    "CW-TOKEN": rules_cw.rule_token,
    "CW-INC-FAIL-ON-DESTRUCTED": rules_cw.rule_inc_fail_on_destructed,
    "CW-UPGRADE-TRACE": rules_cw.rule_upgrade_trace,
    "CW-WINDOW-FRESH": rules_cw.rule_window_fresh,
    "CW-COUNT-OVERFLOW": rules_cw.rule_count_overflow,
    "CW-CASCADE-FOREIGN-GUARD": rules_cw.rule_cascade_foreign_guard,
    "CW-SPLIT-INC-PROTECTED": rules_cw.rule_split_inc,
    "CW-ZERO-DEFERS": rules_cw.rule_zero_defers,
    "CW-ATTEMPT-RECHECK": rules_cw.rule_attempt_recheck,
    "CW-DESTRUCT-ONCE": rules_cw.rule_destruct_once,
    "CW-DESTRUCT-ORDER": rules_cw.rule_destruct_order,
    "CW-WEAK-PROTOCOL": rules_cw.rule_weak_protocol,
    "CW-DEFERRED-ONLY": rules_cw.rule_deferred_only,
    "CW-STAMP-ON-DEC": rules_cw.rule_stamp,
    "CW-STAMP-PINNED": rules_cw.rule_stamp,
    "CW-CASCADE-MERGE": rules_cw.rule_cascade,
    "CW-CASCADE-DECISION": rules_cw.rule_cascade,
    "CW-ALLOC-RANGE": rules_cw.rule_alloc_range,
    "CW-DEC-NONZERO": rules_cw.rule_dec_nonzero,
    "CW-STAMP-MODULAR": rules_cw.rule_stamp_modular,
}


def register(name, fn):
    RULES[name] = fn


# property -> dict(level, rules, witnesses, not_decided)
PROPS = {}


def prop(pid, level, rules, not_decided, witnesses=(), assumptions=()):
    PROPS[pid] = {"level": level, "rules": list(rules), "not_decided": list(not_decided),
                  "witnesses": list(witnesses), "assumptions": list(assumptions), "selftest": True}


def run_rules(ctx, names, errors=None):
    """Evaluate the named rules (cached on ctx). With `errors` (a list), an AnalysisError of one rule is recorded
    there as (rule, text) and the other rules still run; without it the first AnalysisError propagates."""
    from .facts import AnalysisError
    cache = ctx.__dict__.setdefault("_rule_cache", {})
    out = []
    for n in names:
        fn = RULES[n]
        try:
            if fn not in cache:
                try:
                    res = fn(ctx)
                except AnalysisError as e:
                    cache[fn] = e
                    raise
                if not isinstance(res, tuple):
                    res = (res,)
                cache[fn] = {r.rule: r for r in res}
            if isinstance(cache[fn], AnalysisError):
                raise cache[fn]
            r = cache[fn].get(n)
            if r is None:
                raise KeyError("rule function for %s did not produce it" % n)
            if r.floor_failures and not r.violations:
                raise AnalysisError("; ".join(r.floor_failures))
            out.append(r)
        except AnalysisError as e:
            if errors is None:
                raise
            errors.append((n, str(e)))
    return out
