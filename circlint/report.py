"""Violations, rule results, known findings, evidence files."""
import hashlib
import json
import os
import time

from .facts import VERIF, AnalysisError


class Violation:
    def __init__(self, rule, function, instance, what, loc=None, detail=None):
        self.rule = rule
        self.function = function
        self.instance = instance
        self.what = what
        self.loc = loc
        self.detail = detail

    @property
    def key(self):
        # no line numbers in keys
        return "%s:%s:%s:%s" % (self.rule, self.function, self.instance, self.what)

    def to_json(self):
        return {"key": self.key, "rule": self.rule, "function": self.function, "instance": self.instance,
                "what": self.what, "loc": self.loc, "detail": self.detail}

    def __repr__(self):
        return "%s  @ %s" % (self.key, self.loc)


class RuleResult:
    """What one rule looked at and concluded."""

    def __init__(self, rule, props, description):
        self.rule = rule
        self.props = props
        self.description = description
        self.violations = []
        self.instances = []      # checked instances (strings / dicts), for evidence
        self.obligations = 0
        self.discharged = 0
        self.floor = None
        self.found = None
        self.notes = []
        self.functions = set()
        self.paths = 0
        self.floor_failures = []

    def instance(self, label, ok=True, **info):
        for prev in self.instances:
            if prev["instance"] == label and prev["ok"] == ok:
                prev["n"] = prev.get("n", 1) + 1
                return
        d = {"instance": label, "ok": ok}
        d.update(info)
        self.instances.append(d)
        self.obligations += 1
        if ok:
            self.discharged += 1

    def violate(self, function, instance, what, loc=None, detail=None):
        v = Violation(self.rule, function, instance, what, loc, detail)
        # de-duplicate by key
        for w in self.violations:
            if w.key == v.key:
                return w
        self.violations.append(v)
        return v

    def require(self, found, floor, what):
        """Fail closed when fewer instances than counted by hand are found."""
        self.floor = floor
        self.found = found
        if found < floor:
            # decided later (registry.run_rules): a missing instance is an analysis error unless the
            # rule already explains it by a violation
            self.floor_failures.append("%s: found %d %s, expected at least %d (anchor lost?)" % (
                self.rule, found, what, floor))

    def to_json(self):
        return {
            "rule": self.rule,
            "properties": self.props,
            "description": self.description,
            "obligations": self.obligations,
            "discharged": self.discharged,
            "floor": self.floor,
            "found": self.found,
            "functions": sorted(self.functions),
            "paths": self.paths,
            "violations": [v.to_json() for v in self.violations],
            "instances": self.instances[:60],
            "notes": self.notes,
        }


def load_known():
    p = os.path.join(VERIF, "KNOWN_FINDINGS.json")
    if not os.path.exists(p):
        return []
    with open(p) as f:
        return json.load(f)["findings"]


def write_replay(prop, v, meta):
    d = os.path.join(os.environ.get("CIRC_EVIDENCE_DIR") or os.path.join(VERIF, "evidence"), "replay")
    os.makedirs(d, exist_ok=True)
    h = hashlib.sha1(v.key.encode()).hexdigest()[:12]
    path = os.path.join(d, "%s-%s.json" % (prop, h))
    with open(path, "w") as f:
        json.dump({"property": prop, "violation": v.to_json(), "config": meta,
                   "how_to_replay": "./check %s   (static: re-analyses /repo; the construct named in `loc`/"
                                    "`function` is the violation)" % prop}, f, indent=1)
    return path


def finish(prop, level, tier, results, meta, t0, extra_cov=None, assumptions=None, not_decided=None):
    """Apply known findings, print lines, write evidence. Returns exit code."""
    known = load_known()
    known_keys = {k["key"]: k for k in known if k.get("status") == "known"}
    new = []
    hits = []
    seen = set()
    for r in results:
        for v in r.violations:
            if v.key in seen:
                continue
            seen.add(v.key)
            if v.key in known_keys:
                kf = known_keys[v.key]
                if prop in kf.get("properties", [prop]):
                    hits.append((v, kf))
                    continue
            new.append(v)
    for v, kf in hits:
        print("KNOWN-FINDING: property=%s %s [%s] %s" % (prop, kf.get("id", ""), v.key, kf.get("what", "")))
    replay_paths = []
    for v in new:
        p = write_replay(prop, v, {"tier": tier, "debug_assertions": meta.get("debug_assertions")})
        replay_paths.append(p)
        print("VIOLATION property=%s replay=%s" % (prop, p))
        print("  rule=%s function=%s instance=%s" % (v.rule, v.function, v.instance))
        print("  what: %s" % v.what)
        if v.loc:
            print("  at: %s" % v.loc)
        if v.detail:
            print("  detail: %s" % v.detail)
    obligations = sum(r.obligations for r in results)
    discharged = sum(r.discharged for r in results)
    samples = []
    for r in results:
        for inst in r.instances[:3]:
            samples.append({"rule": r.rule, **inst})
    from .sym import Exec
    st = Exec.stats
    cov = {
        "explanation": "Static analysis of /repo's MIR (%s, mir-opt-level 0, configurations %s): %d rules, "
                       "%d obligations examined, %d discharged; the path reader enumerated %d symbolic paths over %d "
                       "function bodies (of %s exported); rules name %d functions. Nothing was executed." % (
                           meta.get("rustc"), [c.get("debug_assertions") for c in meta.get("configs", [{}])], len(results),
                           obligations, discharged, st["paths"], len(st["functions"]), meta.get("bodies"),
                           len(set().union(*[r.functions for r in results]) if results else set())),
        "symbolic_paths": st["paths"],
        "functions_read": sorted(st["functions"])[:80],
        "path_samples": st["samples"],
        "obligations": obligations,
        "discharged": discharged,
        "checker_cmd": "./check %s --tier %s" % (prop, tier),
        "trusted_base": ["rustc nightly MIR construction, drop elaboration, callee resolution, const evaluation",
                         "mirfacts exporter (/verif/driver)", "circlint symbolic path reader and rule code",
                         "std / atomic / scopeguard / crossbeam-utils modelled by name"],
        "rules": [r.to_json() for r in results],
        "samples": samples[:40] or [{"note": "no instances"}],
        "bodies_analysed": meta.get("bodies"),
        "known_findings_hit": [{"key": v.key, "id": kf.get("id")} for v, kf in hits],
        "not_decided": not_decided or [],
        "configs": meta.get("configs", [{"debug_assertions": meta.get("debug_assertions")}]),
        "evaluations": max(obligations, 1),
        "distinct_nontrivial": max(len({(s.get("rule"), str(s.get("instance"))) for r in results for s in r.instances}), 0),
        "rule": "an obligation is one rule instance (site, path class, function or witness) listed in DESIGN.md section 4; "
                "distinct = distinct (rule, instance) pairs",
    }
    if extra_cov:
        cov.update(extra_cov)
    ev = {
        "property_id": prop,
        "tier": tier,
        "seed": int(os.environ.get("VERIF_SEED", "0") or 0),
        "level": level,
        "coverage": cov,
        "assumptions": assumptions or [],
        "wall_s": round(time.time() - t0, 2),
        "violations": len(new),
    }
    evdir = os.environ.get("CIRC_EVIDENCE_DIR") or os.path.join(VERIF, "evidence")
    os.makedirs(evdir, exist_ok=True)
    with open(os.path.join(evdir, "%s.json" % prop), "w") as f:
        json.dump(ev, f, indent=1, default=str)
    return 1 if new else 0
