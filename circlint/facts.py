"""Engine A front: run the mirfacts driver over /repo and load the fact file.

Nothing here executes circ code: `cargo check` type-checks and builds MIR only.
"""
import json
import os
import shutil
import subprocess
import sys
import tempfile
import time

VERIF = os.path.dirname(os.path.dirname(os.path.abspath(__file__)))
DRIVER_DIR = os.path.join(VERIF, "driver")
DRIVER_BIN = os.path.join(DRIVER_DIR, "target", "release", "mirfacts")
REPO = os.environ.get("CIRC_REPO", "/repo")


class AnalysisError(Exception):
    """The tool could not analyse something: neither a pass nor a violation."""


def _sysroot():
    out = subprocess.run(["rustc", "+nightly", "--print", "sysroot"], capture_output=True, text=True)
    if out.returncode != 0:
        raise AnalysisError("nightly toolchain not available: " + out.stderr)
    return out.stdout.strip()


def ensure_driver():
    if os.path.exists(DRIVER_BIN):
        src = os.path.join(DRIVER_DIR, "src", "main.rs")
        if os.path.getmtime(src) <= os.path.getmtime(DRIVER_BIN):
            return
    env = dict(os.environ, CARGO_NET_OFFLINE="true")
    r = subprocess.run(["cargo", "build", "--release", "--offline"], cwd=DRIVER_DIR, env=env,
                       capture_output=True, text=True)
    if r.returncode != 0:
        raise AnalysisError("cannot build mirfacts driver:\n" + r.stderr[-4000:])


def build_facts(repo=None, debug_assertions=True, keep=None):
    """Run the driver on `repo` with a fresh target dir; return the loaded fact dict."""
    repo = repo or REPO
    ensure_driver()
    tmp = tempfile.mkdtemp(prefix="circlint-")
    try:
        out = os.path.join(tmp, "facts.json")
        env = dict(os.environ)
        env["LD_LIBRARY_PATH"] = os.path.join(_sysroot(), "lib") + ":" + env.get("LD_LIBRARY_PATH", "")
        flags = "-Zmir-opt-level=0 -Awarnings"
        if not debug_assertions:
            flags += " -Cdebug-assertions=off -Coverflow-checks=off"
        env["RUSTFLAGS"] = flags
        env["RUSTC_WORKSPACE_WRAPPER"] = DRIVER_BIN
        env["MIRFACTS_OUT"] = out
        env["MIRFACTS_CRATE"] = "circ"
        env["CARGO_TARGET_DIR"] = os.path.join(tmp, "target")
        env["CARGO_NET_OFFLINE"] = "true"
        env.pop("RUSTC_WRAPPER", None)
        t0 = time.time()
        r = subprocess.run(["cargo", "+nightly", "check", "--offline", "--lib", "-q"], cwd=repo, env=env,
                           capture_output=True, text=True)
        if r.returncode != 0:
            raise AnalysisError("cargo check of %s failed (the tree does not compile?):\n%s"
                                % (repo, r.stderr[-6000:]))
        if not os.path.exists(out):
            raise AnalysisError("driver did not write the fact file (stale cargo cache?)")
        with open(out) as f:
            facts = json.load(f)
        facts["meta"]["build_s"] = round(time.time() - t0, 2)
        v = subprocess.run(["rustc", "+nightly", "--version"], capture_output=True, text=True)
        facts["meta"]["rustc"] = v.stdout.strip() or facts["meta"].get("rustc")
        facts["meta"]["repo"] = repo
        if keep:
            shutil.copy(out, keep)
        return facts
    finally:
        shutil.rmtree(tmp, ignore_errors=True)


def load_facts(path):
    with open(path) as f:
        return json.load(f)
