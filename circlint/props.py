"""Decision per property (DESIGN.md section 5): which rules decide which clauses."""
from . import registry, rules_cw, rules_own, rules_link, rules_ord
from .registry import prop, register

register("OWN-BALANCE", rules_own.rule_balance)
register("OWN-PRIMITIVES", rules_own.rule_primitives)
register("OWN-PROVENANCE", rules_own.rule_provenance)
register("LINK-STAMP", rules_link.rule_link_stamp)
register("LINK-WRITERS", rules_link.rule_link_writers)
register("CAS-EPOCH-BLIND", rules_link.rule_cas_epoch_blind)
register("LINK-TAG", rules_link.rule_link_tag)

COMPOSITION = "composition of the per-step protocol conditions into a guarantee over all interleavings (the algorithm's invariant: owners + token = strong); the rules check that each step preserves it, they are not an inductive proof over schedules"
TRUST = ["user RcObject::pop_edges / Drop honour the RcObject safety contract",
         "only the live cfg! arm (x86-64) and non-unwinding paths are judged",
         "memory orderings are judged only against necessary floors (ORD-*: release on giving up a share / leaving a critical "
         "section / publishing, acquire before destruction / consuming); sufficiency of the orderings is not decided"]

prop("C01", "other",
     ["CW-SITES", "OWN-BALANCE", "OWN-PRIMITIVES", "CW-TOKEN", "CW-SPLIT-INC-PROTECTED", "CW-ZERO-DEFERS",
      "CW-DEC-NONZERO", "CW-ATTEMPT-RECHECK", "CW-DEFERRED-ONLY"],
     [COMPOSITION], witnesses=["TY-REF-BORROW"], assumptions=TRUST)
prop("C03", "other",
     ["CW-SITES", "OWN-BALANCE", "OWN-PRIMITIVES", "CW-WEAK-PROTOCOL", "CW-DESTRUCT-ORDER", "CW-SPLIT-INC-PROTECTED",
      "CW-DEFERRED-ONLY", "TY-SIG"],
     [COMPOSITION], witnesses=["TY-SNAPSHOT-GUARD", "TY-REACTIVATE-MUT"], assumptions=TRUST)
prop("C04", "other",
     ["CW-SITES", "CW-DESTRUCT-ONCE", "CW-DESTRUCT-ORDER", "CW-ZERO-DEFERS", "CW-ATTEMPT-RECHECK", "CW-DEC-NONZERO",
      "OWN-BALANCE", "CW-WEAK-PROTOCOL", "CW-ALLOC-RANGE", "CW-CASCADE-DECISION"],
     ["'after a bounded number of collection rounds' (liveness of EBR)", "cycles (excluded by the statement)",
      COMPOSITION], assumptions=TRUST)
prop("C09", "other",
     ["OWN-BALANCE", "OWN-PRIMITIVES", "OWN-PROVENANCE", "CAS-EPOCH-BLIND", "LINK-WRITERS", "LINK-TAG"],
     ["linearizability of concurrent histories (each completed call performs one successful atomic operation on one word; "
      "the history-level claim is not checked)"], assumptions=TRUST)
prop("C10", "other",
     ["OWN-BALANCE", "OWN-PRIMITIVES", "CW-ALLOC-RANGE", "CW-DEC-NONZERO", "CW-ZERO-DEFERS", "CW-WEAK-PROTOCOL"],
     [], assumptions=TRUST)

# ------------------------------------------------------------------------------------------
from . import rules_cmp, rules_ebr, rules_rec  # noqa: E402

register("CMP-DELEGATE", rules_cmp.rule_cmp_delegate)
register("TY-SIG", rules_cmp.rule_ty_sig)
register("EBR-PIN-VALIDATE", rules_ebr.rule_pin_validate)
register("EBR-ADVANCE", rules_ebr.rule_advance)
register("EBR-EPOCH-WRITERS", rules_ebr.rule_epoch_writers)
register("EBR-EXPIRY", rules_ebr.rule_expiry)
register("EBR-SEAL-FRESH", rules_ebr.rule_seal_fresh)
register("EBR-COLLECT-OUTERMOST", rules_ebr.rule_collect_outermost)
register("EBR-GUARD-COUNT", rules_ebr.rule_guard_count)
register("EBR-REACTIVATE", rules_ebr.rule_reactivate)
register("EBR-FINALIZE-HANDOFF", rules_ebr.rule_finalize_handoff)
register("EBR-NO-FORGET", rules_ebr.rule_no_forget)
register("EBR-DEFERRED-INLINE", rules_ebr.rule_deferred_inline)
register("EBR-TLS", rules_ebr.rule_tls)
register("EBR-LIVE-PRECOND", rules_ebr.rule_live_precond)
register("EBR-FLUSH-SCHEDULES", rules_ebr.rule_flush_schedules)
register("EBR-PIN-PROGRESS", rules_ebr.rule_pin_progress)
register("EBR-CELL-RMW", rules_ebr.rule_cell_rmw)
register("EBR-UNWIND-RESTORE", rules_ebr.rule_unwind_restore)
register("EBR-LIST", rules_ebr.rule_list)
register("EBR-QUEUE", rules_ebr.rule_queue)
register("EBR-QUEUE-DROP", rules_ebr.rule_queue_drop)
register("REC-DEPTH-GUARD", rules_rec.rule_depth_guard)
register("REC-IMMEDIATE", rules_rec.rule_immediate)
register("REC-COLLECT-REENTRY", rules_rec.rule_collect_reentry)
register("REC-NO-UNBOUNDED", rules_rec.rule_no_unbounded_recursion)

SCHED = "the schedule-quantified statement itself (that these necessary ordering/gating conditions compose under every interleaving is a model-checking question outside this family)"

prop("C02", "other",
     ["CW-STAMP-PINNED", "CW-STAMP-ON-DEC", "CW-STAMP-MODULAR", "LINK-STAMP", "CW-CASCADE-MERGE", "CW-CASCADE-DECISION", "CW-DEFERRED-ONLY",
      "CW-TOKEN", "EBR-COLLECT-OUTERMOST", "TY-SIG"],
     ["the EBR grace-period argument itself (C13)", COMPOSITION],
     witnesses=["TY-SNAPSHOT-GUARD", "TY-REACTIVATE-MUT"], assumptions=TRUST)
prop("C05", "other",
     ["CW-SITES", "CW-DESTRUCT-ONCE", "CW-INC-FAIL-ON-DESTRUCTED", "CW-TOKEN", "CW-SPLIT-INC-PROTECTED", "CW-DEFERRED-ONLY",
      "CW-ATTEMPT-RECHECK"],
     ["linearisation order of racing upgrades beyond these atomicity facts"],
     witnesses=["TY-WEAK-NO-DEREF", "TY-SNAPSHOT-GUARD"], assumptions=TRUST)
prop("C06", "other",
     ["REC-IMMEDIATE", "CW-CASCADE-DECISION", "CW-ZERO-DEFERS"],
     ["the numeric bound on epoch advances for every shape and epoch alignment (a runtime quantity)"], assumptions=TRUST)
prop("C07", "other",
     ["REC-DEPTH-GUARD", "REC-COLLECT-REENTRY", "REC-NO-UNBOUNDED"],
     ["absence of overflow for a given stack size: frame size depends on T, codegen and the user's Drop/pop_edges"],
     assumptions=TRUST)
prop("C08", "other",
     ["OWN-BALANCE", "OWN-PRIMITIVES", "OWN-PROVENANCE", "CAS-EPOCH-BLIND", "LINK-STAMP", "LINK-WRITERS", "LINK-TAG"],
     ["linearizability of concurrent histories (each completed call performs one successful atomic operation on one word; "
      "the history-level claim is not checked)"],
     witnesses=["TY-TAKE-MUT", "TY-PRIVATE"], assumptions=TRUST)
prop("C13", "other",
     ["EBR-PIN-VALIDATE", "EBR-ADVANCE", "EBR-EXPIRY", "EBR-SEAL-FRESH", "EBR-COLLECT-OUTERMOST", "EBR-GUARD-COUNT",
      "CW-DEFERRED-ONLY", "TY-SIG"],
     # "anything unlinked during a critical section's lifetime outlives that critical section": what the user holds on to
     # across a reactivation is part of it - the receivers of reactivate / reactivate_after (S-C13-10)
     [SCHED], witnesses=["TY-REACTIVATE-MUT", "TY-SNAPSHOT-GUARD"], assumptions=TRUST)
prop("C15", "other",
     ["EBR-NO-FORGET", "EBR-FINALIZE-HANDOFF", "EBR-DEFERRED-INLINE", "EBR-QUEUE-DROP", "EBR-QUEUE", "EBR-FLUSH-SCHEDULES",
      "EBR-UNWIND-RESTORE"],
     ["'eventually' (liveness) beyond its structural part: every flush / bag overflow schedules a collection and every "
      "collection tries to advance (EBR-FLUSH-SCHEDULES); that finitely many rounds suffice is not decided"], assumptions=TRUST)
prop("C16", "other",
     ["EBR-GUARD-COUNT", "EBR-REACTIVATE", "EBR-EPOCH-WRITERS", "EBR-COLLECT-OUTERMOST", "TY-SIG", "EBR-LIVE-PRECOND", "EBR-CELL-RMW"],
     ["re-entrancy from destructors running during collection beyond EBR-COLLECT-OUTERMOST"],
     witnesses=["TY-REACTIVATE-MUT", "TY-GUARD-NOT-SEND"], assumptions=TRUST)
prop("C17", "other",
     ["EBR-QUEUE"],
     ["FIFO order and linearizability of histories; 'empty only if empty at some instant'"], assumptions=TRUST)
prop("C18", "other",
     ["EBR-ADVANCE", "EBR-LIST"],
     ["completeness of a non-stalled traversal under concurrent insert/delete (the Michael list argument)"], assumptions=TRUST)
prop("C19", "proof",
     ["CMP-DELEGATE"],
     [], assumptions=["std's PartialEq/PartialOrd/Ord/Hash for Option<&T> are lawful given T's", "rustc callee resolution"])
prop("C20", "other",
     ["EBR-TLS", "EBR-FINALIZE-HANDOFF", "EBR-NO-FORGET", "EBR-LIVE-PRECOND", "EBR-CELL-RMW"],
     ["deadlock freedom and every TLS destruction order"], assumptions=TRUST)

# ------------------------------------------------------------------------------------------
from . import rules_bit  # noqa: E402

register("BIT-TAGGED", rules_bit.rule_bit_tagged)
register("BIT-DELEGATION", rules_bit.rule_bit_delegation)
register("BIT-STATE", rules_bit.rule_bit_state)
register("MOD-WINDOW", rules_bit.rule_mod_window)
register("MOD-AGING", rules_bit.rule_mod_aging)
register("EPOCH-ARITH", rules_bit.rule_epoch_arith)

BITTRUST = ["rustc MIR construction and const evaluation", "the abstract transfer functions of circlint/bitabs.py (bit provenance, "
            "linear forms mod 2^64, affine forms in K)", "addresses fit below bit 60 (the reserved high bits)"]
prop("C11", "proof",
     ["BIT-TAGGED", "BIT-DELEGATION"],
     [], assumptions=BITTRUST)
prop("C12", "proof",
     ["BIT-STATE", "MOD-WINDOW", "CW-CASCADE-DECISION", "CW-STAMP-MODULAR"],
     [], assumptions=BITTRUST + ["field independence of add_*/sub_* for in-range values follows from the verified linear form "
                                 "`s +/- v*unit` by elementary arithmetic (no carry leaves a contiguous field while the field's "
                                 "value stays in range); out-of-range counts are CW-ALLOC-RANGE's findings"])
prop("C14", "other",
     ["EBR-ADVANCE", "EBR-EPOCH-WRITERS", "EBR-PIN-VALIDATE", "EPOCH-ARITH"],
     ["monotonicity under racing advancers as a schedule property (follows from 'advancers are pinned and check themselves', "
      "which is argued, not checked)"], assumptions=TRUST)


# ------------------------------------------------------------------------------------------
from . import rules_wrap  # noqa: E402

register("WRAP-ATOMICS", rules_wrap.rule_wrap_atomics)
register("CW-ALLOC-INIT", rules_wrap.rule_alloc_init)
register("EBR-DEFAULT-COLLECTOR", rules_wrap.rule_default_collector)
register("CW-DEFER-WRAPPER", rules_wrap.rule_defer_wrapper)
register("EBR-INIT", rules_wrap.rule_ebr_init)
register("EBR-TUNABLES", rules_wrap.rule_tunables)
register("DBG-PURE", rules_wrap.rule_dbg_pure)
register("ORD-COUNT", rules_ord.rule_ord_count)
register("ORD-EPOCH", rules_ord.rule_ord_epoch)
register("ORD-QUEUE", rules_ord.rule_ord_queue)
register("ORD-LIST", rules_ord.rule_ord_list)
register("ORD-FORWARD", rules_ord.rule_ord_forward)
for _name, (_props, _d) in rules_ord.SECTIONS.items():
    for _p in _props:
        if _name not in registry.PROPS[_p]["rules"]:
            registry.PROPS[_p]["rules"].append(_name)
# dependencies between properties: what is promised "inside a still-active critical section" (C02 Snapshots, C03
# WeakSnapshots) needs every grace-period rule of C13; "destructed once, freed once, nothing leaks" (C04) needs every
# deferred function to run exactly once and eventually (the rules of C15)
for _p, _src in (("C02", "C13"), ("C03", "C13"), ("C04", "C15")):
    registry.PROPS[_p]["rules"] += [x for x in registry.PROPS[_src]["rules"] if x not in registry.PROPS[_p]["rules"]]
# "epoch bits invisible" (C11) covers the exchanges: a difference in the stamp alone must not surface as a failure;
# the handle that repin takes is what keeps a guard-only participant (C20) from being finalized mid-repin
# "a pinned participant sees at most one advance" (C14) needs that its epoch is never re-published while a guard lives:
# who may call repin_without_collect, the repin sequence, and the outermost-only clearing
for _p, _rules in (("C11", ["CAS-EPOCH-BLIND", "LINK-STAMP", "LINK-TAG"]), ("C20", ["EBR-REACTIVATE", "REC-NO-UNBOUNDED", "REC-COLLECT-REENTRY"]),
                   ("C18", ["REC-NO-UNBOUNDED", "EBR-DEFAULT-COLLECTOR"]), ("C19", ["BIT-TAGGED"]),
                   ("C01", ["CW-COUNT-OVERFLOW"]), ("C03", ["CW-COUNT-OVERFLOW"]),
                   ("C02", ["CW-UPGRADE-TRACE", "OWN-PRIMITIVES", "LINK-TAG", "CW-WINDOW-FRESH", "CW-CASCADE-FOREIGN-GUARD"]), ("C05", ["CW-UPGRADE-TRACE", "CW-COUNT-OVERFLOW"]),
                   # (the stamps the comparison classifies: what is merged, and that every release leaves one)
                   ("C12", ["OWN-PRIMITIVES", "LINK-TAG", "CW-WINDOW-FRESH", "CW-STAMP-ON-DEC", "CW-CASCADE-MERGE"]),
                   ("C14", ["EBR-COLLECT-OUTERMOST", "EBR-REACTIVATE", "EBR-GUARD-COUNT"])):
    registry.PROPS[_p]["rules"] += [x for x in _rules if x not in registry.PROPS[_p]["rules"]]
# `Snapshot::counted` turns a protected Snapshot into a counted owner: "an Rc however obtained (counted, ..) points to a
# live object" (C01) needs the count-word side of Snapshot protection - which decrements stamp, how the cascade merges
# and judges stamps.  "the same cell semantics for AtomicWeak" (C09) compares block addresses: the comparison means
# "the same object" only while the expected WeakSnapshot's block cannot be recycled, i.e. the deferred-free protocol
for _p, _rules in (("C01", ["CW-STAMP-ON-DEC", "CW-STAMP-PINNED", "CW-STAMP-MODULAR", "LINK-STAMP", "CW-CASCADE-MERGE",
                            "CW-CASCADE-DECISION", "CW-UPGRADE-TRACE", "CW-WINDOW-FRESH"]),
                   ("C09", ["CW-WEAK-PROTOCOL", "CW-DESTRUCT-ORDER", "CW-DEFERRED-ONLY"]), ("C08", ["CW-DEFERRED-ONLY"])):
    registry.PROPS[_p]["rules"] += [x for x in _rules if x not in registry.PROPS[_p]["rules"]]
# ... and the epoch side of it too: whatever un-protects a Snapshot (a re-pin under a live guard, a bag that expires
# early) un-protects the Rc that `counted` makes of it.  C01 includes the rules of C02 (which include those of C13).
_C01_FROM_C02 = True
for _p, _rules in (("C01", ["CW-ALLOC-INIT", "CW-DEFER-WRAPPER"]), ("C02", ["EBR-DEFAULT-COLLECTOR", "CW-DEFER-WRAPPER"]),
                   ("C03", ["CW-ALLOC-INIT", "CW-DEFER-WRAPPER"]), ("C04", ["CW-ALLOC-INIT"]), ("C10", ["CW-ALLOC-INIT"]),
                   ("C13", ["WRAP-ATOMICS", "EBR-DEFAULT-COLLECTOR", "CW-DEFER-WRAPPER"]),
                   ("C14", ["WRAP-ATOMICS", "EBR-DEFAULT-COLLECTOR"]), ("C17", ["WRAP-ATOMICS"]), ("C18", ["WRAP-ATOMICS"]),
                   ("C20", ["EBR-DEFAULT-COLLECTOR"]),
                   # (a thread that keeps one guard and does its rounds as flush(); reactivate() collects only because
                   #  reactivate goes through unpin: the repin sequence is part of "eventually")
                   ("C04", ["EBR-PIN-PROGRESS", "DBG-PURE"]), ("C15", ["EBR-PIN-PROGRESS", "DBG-PURE", "EBR-REACTIVATE"]),
                   ("C05", ["DBG-PURE"]), ("C13", ["DBG-PURE"]), ("C16", ["DBG-PURE"]), ("C01", ["DBG-PURE"]),
                   # "user tags are preserved exactly and truncated to the alignment bits" (C08/C09) is the bit-level round trip;
                   # "the reference upgrade returns obeys C02" (C05) includes the signature that ties it to the guard
                   ("C08", ["BIT-TAGGED"]), ("C09", ["BIT-TAGGED"]),
                   # upgrade decides by reading the block's count word: "once an upgrade has failed every later one fails"
                   # needs the block to outlive every Weak (no reuse under a stale Weak)
                   ("C05", ["TY-SIG", "CW-WEAK-PROTOCOL"]),
                   # the queue's head CAS (and the list's unlink CAS) are ABA-free only while a consumer that holds a
                   # (head, next) snapshot stays pinned: whatever re-pins a thread under a live guard breaks them
                   ("C17", ["EBR-REACTIVATE", "EBR-COLLECT-OUTERMOST", "EBR-GUARD-COUNT", "EBR-INIT", "CW-DEFER-WRAPPER"]),
                   ("C18", ["EBR-REACTIVATE", "EBR-COLLECT-OUTERMOST", "EBR-GUARD-COUNT", "CW-DEFER-WRAPPER"]),
                   # "nodes still referenced from elsewhere are skipped and survive": the cascade tells by the count alone
                   ("C06", ["MOD-AGING", "OWN-BALANCE", "OWN-PRIMITIVES"]),
                   # the depth cap counts frames of ONE cascade: an attempt run synchronously inside a payload destructor
                   # (an unprotected guard runs deferred closures at once) starts a nested cascade at depth 0
                   ("C07", ["CW-DEFERRED-ONLY"]), ("C15", ["EBR-TUNABLES"]), ("C04", ["EBR-TUNABLES"]), ("C20", ["EBR-TUNABLES"]),
                   ("C20", ["EBR-FLUSH-SCHEDULES"]),
                   # a step written inside a debug_assert! exists in the build the tests run and in no release build: whatever the
                   # property, the code judged must be the code that ships (round-9 RELEASE seeds)
                   ("C02", ["DBG-PURE"]), ("C03", ["DBG-PURE"]), ("C06", ["DBG-PURE"]), ("C07", ["DBG-PURE"]), ("C08", ["DBG-PURE"]),
                   ("C09", ["DBG-PURE"]), ("C10", ["DBG-PURE"]), ("C12", ["DBG-PURE"]), ("C14", ["DBG-PURE"]), ("C17", ["DBG-PURE"]),
                   ("C18", ["DBG-PURE"]), ("C20", ["DBG-PURE"]),
                   # "all n nodes are destructed" / "still reclaims every node": a node the cascade puts off (depth cap, stamp
                   # too recent) is handed to a deferred try_destruct - not dropped on the floor, not merely freed
                   ("C06", ["CW-DESTRUCT-ORDER"]), ("C07", ["CW-DESTRUCT-ORDER", "CW-ZERO-DEFERS"]),
                   # "as judged by ptr_eq" (C08/C09): the handles' ptr_eq is Tagged::ptr_eq of their two words
                   ("C08", ["BIT-DELEGATION"]), ("C09", ["BIT-DELEGATION"]),
                   ("C13", ["EBR-INIT"]), ("C14", ["EBR-INIT"]), ("C16", ["EBR-INIT"]), ("C18", ["EBR-INIT"]), ("C20", ["EBR-INIT"])):
    registry.PROPS[_p]["rules"] += [x for x in _rules if x not in registry.PROPS[_p]["rules"]]

# a participant that is finalized, or re-pinned, under a live guard is no longer seen by try_advance: the reactivate
# sequences are part of "deferred work never runs while a critical section active at deferral is active" (C13)
# ... and collect pops a sealed bag only if THAT bag is expired: the conditional pop's "predicate held for that very
# element" is what keeps an unexpired bag from being run
# ... and a critical section entered during tear-down is one of the SAME collector (EBR-TLS' fallback clause)
for _r in ("EBR-REACTIVATE", "EBR-FINALIZE-HANDOFF", "EBR-QUEUE", "EBR-TLS"):
    if _r not in registry.PROPS["C13"]["rules"]:
        registry.PROPS["C13"]["rules"].append(_r)
# the dependencies once more, now that every list is complete
for _p, _src in (("C02", "C13"), ("C03", "C13"), ("C04", "C15")):
    registry.PROPS[_p]["rules"] += [x for x in registry.PROPS[_src]["rules"] if x not in registry.PROPS[_p]["rules"]]

# every per-thread invariant of the collector (the local bag, the Cell counters, the announced epoch) rests on a participant being
# used by one thread: a Guard that can be sent to or shared with another thread breaks them all at once (S-C15-10:
# `unsafe impl Sync for Guard`, deferred functions lost or run twice)
for _p in ("C13", "C14", "C15", "C17", "C18", "C20", "C02", "C03", "C04"):
    _w = list(registry.PROPS[_p].get("witnesses") or [])
    if "TY-GUARD-NOT-SEND" not in _w:
        registry.PROPS[_p]["witnesses"] = _w + ["TY-GUARD-NOT-SEND"]
if "EBR-TLS" not in registry.PROPS["C14"]["rules"]:
    registry.PROPS["C14"]["rules"].append("EBR-TLS")
if _C01_FROM_C02:
    registry.PROPS["C01"]["rules"] += [x for x in registry.PROPS["C02"]["rules"] if x not in registry.PROPS["C01"]["rules"]]
    registry.PROPS["C01"]["witnesses"] = list(registry.PROPS["C01"].get("witnesses") or []) + [
        w for w in (registry.PROPS["C02"].get("witnesses") or []) if w not in (registry.PROPS["C01"].get("witnesses") or [])]
