"""Decision per property (DESIGN.md section 5): which rules decide which clauses."""
from . import registry, rules_cw, rules_own, rules_link
from .registry import prop, register

register("OWN-BALANCE", rules_own.rule_balance)
register("OWN-PRIMITIVES", rules_own.rule_primitives)
register("OWN-PROVENANCE", rules_own.rule_provenance)
register("LINK-STAMP", rules_link.rule_link_stamp)
register("LINK-WRITERS", rules_link.rule_link_writers)
register("CAS-EPOCH-BLIND", rules_link.rule_cas_epoch_blind)

COMPOSITION = "composition of the per-step protocol conditions into a guarantee over all interleavings (the algorithm's invariant: owners + token = strong); the rules check that each step preserves it, they are not an inductive proof over schedules"
TRUST = ["user RcObject::pop_edges / Drop honour the RcObject safety contract",
         "only the live cfg! arm (x86-64) and non-unwinding paths are judged",
         "memory orderings of RMWs are not judged (unobservable on x86-64)"]

prop("C01", "other",
     ["CW-SITES", "OWN-BALANCE", "OWN-PRIMITIVES", "CW-TOKEN", "CW-SPLIT-INC-PROTECTED", "CW-ZERO-DEFERS",
      "CW-ATTEMPT-RECHECK", "CW-DEFERRED-ONLY"],
     [COMPOSITION], assumptions=TRUST)
prop("C03", "other",
     ["CW-SITES", "OWN-BALANCE", "OWN-PRIMITIVES", "CW-WEAK-PROTOCOL", "CW-SPLIT-INC-PROTECTED", "CW-DEFERRED-ONLY"],
     [COMPOSITION], assumptions=TRUST)
prop("C04", "other",
     ["CW-SITES", "CW-DESTRUCT-ONCE", "CW-DESTRUCT-ORDER", "CW-ZERO-DEFERS", "OWN-BALANCE", "CW-WEAK-PROTOCOL",
      "CW-ALLOC-RANGE"],
     ["'after a bounded number of collection rounds' (liveness of EBR)", "cycles (excluded by the statement)",
      COMPOSITION], assumptions=TRUST)
prop("C09", "other",
     ["OWN-BALANCE", "OWN-PRIMITIVES", "OWN-PROVENANCE", "CAS-EPOCH-BLIND", "LINK-WRITERS"],
     ["linearizability of concurrent histories (each completed call performs one successful atomic operation on one word; "
      "the history-level claim is not checked)"], assumptions=TRUST)
prop("C10", "other",
     ["OWN-BALANCE", "OWN-PRIMITIVES", "CW-ALLOC-RANGE"],
     [], assumptions=TRUST)
