"""LINK-STAMP, LINK-WRITERS, CAS-EPOCH-BLIND (DESIGN.md 4.3)."""
from .facts import AnalysisError
from .report import RuleResult
from .sym import Exec, norm, show, strip, subterms, calls_in
from .rules_own import link_side, own_paths, CAS_METHODS, _link_cas_events, pclass
from .cw import const_of, _places_in_rvalue

WITH_TS = "strong::<impl ebr_impl::pointers::Tagged<utils::RcInner<T>>>::with_timestamp"
EXEMPT_WRITERS = {
    "strong::AtomicRc::<T>::new": "cell not yet shared (constructor)",
    "strong::AtomicRc::<T>::null": "writes null",
    "<strong::AtomicRc<T> as std::convert::From<strong::Rc<T>>>::from": "cell not yet shared (constructor)",
    "strong::AtomicRc::<T>::take": "writes null (mem::take leaves the default) under &mut self",
}


def _is_stamped(t, path=None):
    """with_timestamp(x) - or, when the stamping helper is a function a refactoring introduced (read inlined), its two
    arms: x.with_high_tag(global_epoch()) resp. x itself on a path that found x null"""
    t = strip(t)
    if isinstance(t, tuple) and t[0] == "call" and norm(t[1]).endswith("::with_timestamp"):
        return True
    if isinstance(t, tuple) and t[0] == "call" and norm(t[1]) == "ebr_impl::pointers::Tagged::with_high_tag" and len(t[2]) == 2 \
            and calls_in(t[2][1], "ebr_impl::default::global_epoch"):
        return True
    if path is not None:
        for e in path.events:
            if e.kind == "cond" and isinstance(e.term, tuple) and e.term[0] == "call" and norm(e.term[1]).endswith("::is_null") \
                    and e.value == 1 and strip(e.term[2][0]) == t:
                return True
    return False


def _escapes(ref, t):
    """does the reference `ref` itself (through reborrows, casts, transmutes, aggregates - not as an argument consumed by another
    call such as mem::take) occur in term t?"""
    t = strip(t)
    if t == ref:
        return True
    if not isinstance(t, tuple) or not t:
        return False
    if t[0] == "call":
        if "transmute" in t[1] or norm(t[1]).endswith(("::cast", "::as_mut", "::as_ref", "::from_mut")):
            return any(_escapes(ref, a) for a in t[2])
        return False
    return any(_escapes(ref, x) for x in t[1:] if isinstance(x, tuple))


def rule_link_stamp(ctx):
    r = RuleResult("LINK-STAMP", ["C02", "C08"],
                   "every value written into a shared AtomicRc.link passes through with_timestamp (stamps iff non-null)")
    prog = ctx.prog
    n = 0
    for name, b in sorted(prog.bodies.items()):
        if b.kind == "closure" or not b.file().endswith("strong.rs"):
            continue
        if "strong::AtomicRc" not in (b.j.get("impl_self") or ""):
            continue
        if name in prog.auto_inline():
            continue      # a helper a refactoring split off: read inlined into the methods that call it, with their arguments
        for p in own_paths(ctx, name):
            if p.exit[0] == "diverge":
                continue
            for e in p.events:
                if e.kind != "call" or not (e.ntarget or "").startswith("atomic::Atomic::"):
                    continue
                op = e.ntarget[len("atomic::Atomic::"):]
                if link_side(prog, b, e.args[0]) != "strong" and op != "new":
                    continue
                if op == "get_mut":
                    # exclusive access to the link's storage: used to take the content out (take, Drop) - never handed to the
                    # caller, who could then write a pointer into the link without its stamp (the authors' own note on why
                    # AtomicRc has no get_mut)
                    leaked = p.ret is not None and _escapes(e.result, p.ret)
                    stored = [q for q in p.events if q.kind == "store" and _escapes(e.result, q.value)]
                    okg = not leaked and not stored
                    r.instance("%s: the exclusive reference to the link's storage stays inside" % name.split("::")[-1], okg)
                    if not okg:
                        r.violate(name, "alias:get_mut", "hands out a mutable reference to the storage of the strong link: safe code "
                                  "can then write a pointer into the link without with_timestamp() (and read one out without "
                                  "taking it)", e.loc())
                    continue
                written = None
                if op in ("swap", "store"):
                    written = e.args[1]
                elif op in ("compare_exchange", "compare_exchange_weak"):
                    written = e.args[2]
                elif op == "new":
                    if name not in EXEMPT_WRITERS:
                        r.violate(name, "Atomic::new", "constructs a link outside the exempt constructors", e.loc())
                    continue
                if written is None:
                    continue
                n += 1
                r.functions.add(name)
                if name in EXEMPT_WRITERS:
                    r.instance("%s: %s exempt (%s)" % (name, op, EXEMPT_WRITERS[name]), True)
                    continue
                ok = _is_stamped(written, p)
                r.instance("%s: %s writes %s" % (name.split("::")[-1], op, "with_timestamp(..)" if ok else show(written)[:60]), ok)
                if not ok:
                    r.violate(name, "write:" + op, "writes a pointer into the shared link without with_timestamp(): the "
                              "cascade cannot know how recently a reader may have loaded it", e.loc())
    # with_timestamp itself (when it has become a helper that is read inlined, its two arms were judged at every write)
    wb = prog.bodies.get(WITH_TS)
    if wb is None:
        helpers = [h for h in prog.auto_inline() if prog.bodies[h].file().endswith("strong.rs") and
                   any(norm(c.target or "") == "ebr_impl::pointers::Tagged::with_high_tag" for (_, _, c) in prog.bodies[h].calls())]
        r.instance("stamping helper read inlined: %s" % sorted(helpers), bool(helpers))
        if not helpers:
            raise AnalysisError("anchor missing: no MIR body named `%s` and no helper that stamps" % WITH_TS)
    else:
        r.functions.add(WITH_TS)
    for p in (ctx.ex.paths(wb) if wb is not None else []):
        if p.exit[0] != "return":
            continue
        nullc = [e for e in p.events if e.kind == "cond" and isinstance(e.term, tuple) and e.term[0] == "call"
                 and norm(e.term[1]).endswith("::is_null")]
        ret = strip(p.ret)
        if not nullc:
            # no null test: every word is stamped. A stamped null is still null for every consumer (is_null, ptr_eq, as_raw
            # ignore bits 60..63: BIT-TAGGED), so this is the same behaviour; what must hold is that the stamp is the current epoch
            ok = (isinstance(ret, tuple) and ret[0] == "call" and norm(ret[1]) == "ebr_impl::pointers::Tagged::with_high_tag"
                  and strip(ret[2][0]) == ("arg", 1, wb.local_name(1))
                  and bool(calls_in(ret[2][1], "ebr_impl::default::global_epoch")))
            r.instance("with_timestamp(p) = p.with_high_tag(global_epoch()) for every word, null included", ok)
            if not ok:
                r.violate(WITH_TS, "stamp", "a non-null pointer must be stamped with the current global epoch", wb.loc(0))
            continue
        isnull = nullc[0].value == 1
        if isnull:
            ok = ret == ("arg", 1, wb.local_name(1)) or (
                isinstance(ret, tuple) and ret[0] == "call" and norm(ret[1]) == "ebr_impl::pointers::Tagged::with_high_tag"
                and strip(ret[2][0]) == ("arg", 1, wb.local_name(1)))      # only bits 60..63 differ: still null, same tag
            r.instance("with_timestamp(null) = null, user tag unchanged", ok)
            if not ok:
                r.violate(WITH_TS, "null", "a null pointer must be returned with its user tag unchanged", wb.loc(0))
        else:
            ok = (isinstance(ret, tuple) and ret[0] == "call" and norm(ret[1]) == "ebr_impl::pointers::Tagged::with_high_tag"
                  and strip(ret[2][0]) == ("arg", 1, wb.local_name(1))
                  and bool(calls_in(ret[2][1], "ebr_impl::default::global_epoch")))
            r.instance("with_timestamp(p) = p.with_high_tag(global_epoch())", ok)
            if not ok:
                r.violate(WITH_TS, "stamp", "a non-null pointer must be stamped with the current global epoch", wb.loc(0))
    r.require(n, 5, "link writes")
    return r


def rule_link_writers(ctx):
    r = RuleResult("LINK-WRITERS", ["C08", "C09"], "the link fields are touched only by their own type's methods")
    prog = ctx.prog
    n = 0
    for name, b in sorted(prog.bodies.items()):
        for bi in b.reachable():
            blk = b.blocks[bi]
            places = []
            for st in blk["stmts"]:
                if st["k"] == "assign":
                    places.append(st["place"])
                    places.extend(_places_in_rvalue(st["rv"]))
            tm = blk["term"]
            if tm["k"] == "call":
                for a in tm["args"]:
                    pl = a.get("copy") or a.get("move")
                    if pl:
                        places.append(pl)
                places.append(tm["dest"])
            elif tm["k"] == "drop":
                places.append(tm["place"])
            for pl in places:
                for e in pl["proj"]:
                    if isinstance(e, dict) and e.get("name") == "link" and e.get("adt") in ("strong::AtomicRc", "weak::AtomicWeak"):
                        n += 1
                        owner = e["adt"]
                        for rn in prog.path_roots(b.name):
                            root = prog.body(rn)
                            ok = owner in (root.j.get("impl_self") or "")
                            r.instance("%s touches %s.link" % (root.name, owner), ok)
                            r.functions.add(root.name)
                            if not ok:
                                r.violate(root.name, "link", "accesses %s.link from outside %s's own methods" % (owner, owner),
                                          b.loc(bi))
    vis = {}
    for a in prog.items["adts"]:
        if a["path"] in ("strong::AtomicRc", "weak::AtomicWeak"):
            for f in a["variants"][0]["fields"]:
                if f["name"] == "link":
                    vis[a["path"]] = f["vis"]
                    pub = "Public" in f["vis"]
                    r.instance("%s.link is not public (%s)" % (a["path"], f["vis"]), not pub)
                    if pub:
                        r.violate(a["path"], "visibility", "the link field is public")
    r.require(n, 14, "link accesses")
    return r


def rule_cas_epoch_blind(ctx):
    r = RuleResult("CAS-EPOCH-BLIND", ["C08", "C09"],
                   "a compare_exchange reports failure only after ptr_eq(current, expected) was false for the latest "
                   "observed word; on ptr_eq it retries with expected := observed word and the same new value")
    prog = ctx.prog
    ex2 = Exec(prog, unroll=2)
    n = 0
    n0 = 0
    seen_exp = set()
    # the six exchanges the rule was written for - and every other method of the two cell types that exchanges on the link (an
    # exchange added later, `compare_exchange_counted`, is a compare_exchange: same obligations)
    methods = dict(CAS_METHODS)
    for nm, bb in sorted(prog.bodies.items()):
        isf = bb.j.get("impl_self") or ""
        if nm in methods or bb.kind == "closure" or nm in prog.auto_inline() or "::test" in nm or \
                not ("strong::AtomicRc" in isf or "weak::AtomicWeak" in isf):
            continue
        if not any(norm(c.target or "") in ("atomic::Atomic::compare_exchange", "atomic::Atomic::compare_exchange_weak") or
                   (c.target or "") in prog.auto_inline() for (_, _, c) in bb.calls()):
            continue
        try:
            has = any(_link_cas_events(ctx, p_) for p_ in ex2.paths(bb))
        except AnalysisError:
            has = False
        if has:
            methods[nm] = ("strong" if "strong::AtomicRc" in isf else "weak", "extra")
    for name, (side, kind) in methods.items():
        b = prog.body(name)
        r.functions.add(name)
        paths = ex2.paths(b)
        saw_retry = False
        for p in paths:
            if p.exit[0] == "diverge":
                continue
            r.paths += 1
            cas = _link_cas_events(ctx, p)
            if not cas:
                continue
            # (0) the first exchange compares the cell with the word of the `expected` snapshot the caller passed (mutation sweep 3:
            #     `let mut expected_raw = desired.ptr;` - ledger, provenance and retry logic are all consistent with it)
            exp_idx = [k for k in range(2, b.arg_count + 1) if "Snapshot<" in b.local_ty(k)]
            if not exp_idx and kind == "extra":
                # an exchange with another kind of `expected` (a `&Weak`): the operand clause is the baseline methods'
                exp_idx = [k for k in range(2, b.arg_count + 1) if any(x in b.local_ty(k) for x in ("Weak<", "Rc<"))][:1]
            if not exp_idx:
                raise AnalysisError("CAS-EPOCH-BLIND: %s has no snapshot parameter to compare with" % name)
            e0 = cas[0][1]
            w = strip(e0.args[1])
            ok0 = isinstance(w, tuple) and w[0] == "field" and w[1] == "ptr" and strip(w[2]) == ("arg", exp_idx[0], b.local_name(exp_idx[0]))
            if (name, "exp") not in seen_exp:
                seen_exp.add((name, "exp"))
                n0 += 1
                r.instance("%s: the cell is compared with the `%s` snapshot's word" % (name, b.local_name(exp_idx[0])), ok0)
            if not ok0:
                r.violate(name, "expected-operand", "the first exchange does not compare the cell with the word of the `%s` snapshot "
                          "the caller passed (it compares with `%s`)" % (b.local_name(exp_idx[0]), show(w)[:60]), e0.loc())
            # (a) Err returns
            if p.exit[0] == "return":
                (i, e, out) = cas[-1]
                if out == "err":
                    n += 1
                    payload = ("field", "0", ("variant", "Err", e.result))
                    peq = [q for q in p.events[i:] if q.kind == "cond" and isinstance(q.term, tuple) and q.term[0] == "call"
                           and norm(q.term[1]).endswith("::ptr_eq")]
                    good = False
                    for q in peq:
                        a0, a1 = strip(q.term[2][0]), strip(q.term[2][1])
                        pair = {_k(a0), _k(a1)}
                        if _k(payload) in pair and _k(strip(e.args[1])) in pair and q.value == 0:
                            good = True
                    if not good and _null_never_stamped(ctx):
                        # rely/guarantee with LINK-STAMP: when no null word can carry epoch bits, a failure against a *null*
                        # expected word needs no ptr_eq: the words differ in pointer or tag
                        exp = strip(e.args[1])
                        if any(q.kind == "cond" and q.value == 1 and isinstance(q.term, tuple) and q.term[0] == "call"
                               and norm(q.term[1]).endswith("::is_null") and _unref(q.term[2][0]) == exp for q in p.events):
                            good = True
                    r.instance("%s: Err only after ptr_eq(observed, expected) == false" % name, good)
                    if not good:
                        r.violate(name, "err-return",
                                  "returns Err straight from the atomic operation without checking ptr_eq(current, "
                                  "expected): a difference in the internal epoch bits alone makes the exchange fail",
                                  e.loc())
            # (b) retry edge: consecutive CASes
            for k in range(len(cas) - 1):
                (i1, e1, o1), (i2, e2, o2) = cas[k], cas[k + 1]
                if o1 != "err":
                    continue
                saw_retry = True
                payload = ("field", "0", ("variant", "Err", e1.result))
                ok = strip(e2.args[1]) == payload and e2.args[2] == e1.args[2]
                between = [q for q in p.events[i1:i2] if q.kind == "cond" and isinstance(q.term, tuple) and q.term[0] == "call"
                           and norm(q.term[1]).endswith("::ptr_eq") and q.value == 1]
                ok = ok and bool(between)
                n += 1
                r.instance("%s: retry re-enters with expected := observed word, same new value" % name, ok)
                if not ok:
                    r.violate(name, "retry", "the retry after ptr_eq does not use the observed word as the new expected "
                              "value (or changes the value to install)", e2.loc())
        if not saw_retry:
            r.instance("%s: has a ptr_eq retry edge" % name, False)
            r.violate(name, "no-retry", "has no retry when only the internal epoch bits differ (ptr_eq true): "
                      "the exchange fails although pointer and tag equal the expected ones", b.loc(0))
    r.require(n, 12, "CAS outcomes")
    return r


def _k(t):
    return t


def _unref(t):
    t = strip(t)
    while isinstance(t, tuple) and t[0] == "ref":
        t = strip(t[1])
    return t


def _null_never_stamped(ctx):
    """No null word carries epoch bits: with_high_tag is applied by the stamping helper only, and that helper returns a null
    word unchanged. (Words otherwise start as null() = 0 or an allocation and are modified by with_tag only: LINK-TAG.)"""
    if hasattr(ctx, "_nns"):
        return ctx._nns
    prog = ctx.prog
    ok = True
    callers = {name for name, b in prog.bodies.items() for (_, _, c) in b.calls()
               if norm(c.target or "") == "ebr_impl::pointers::Tagged::with_high_tag" and "::tests::" not in name
               and "::test::" not in name}
    # Tagged::ptr_eq clears the epoch bits of both operands to compare them: its result is a bool, no word escapes
    callers -= {c for c in callers if norm(c) == "ebr_impl::pointers::Tagged::ptr_eq"}
    if not callers or any(not c.endswith("::with_timestamp") for c in callers):
        ok = False
    wb = prog.bodies.get(WITH_TS)
    if wb is None:
        ok = False
    else:
        sawnull = False
        for p in ctx.ex.paths(wb):
            if p.exit[0] != "return":
                continue
            nullc = [e for e in p.events if e.kind == "cond" and isinstance(e.term, tuple) and e.term[0] == "call"
                     and norm(e.term[1]).endswith("::is_null")]
            if nullc and nullc[0].value == 1:
                sawnull = True
                ok = ok and strip(p.ret) == ("arg", 1, wb.local_name(1))
        ok = ok and sawnull
    ctx._nns = ok
    return ok


# ------------------------------------------------------------------------------------------
def _is_param_ptr(t):
    """`<param>.ptr` (through derefs / refs)"""
    t = strip(t)
    if not (isinstance(t, tuple) and t[0] == "field" and t[1] == "ptr"):
        return False
    x = strip(t[2])
    while isinstance(x, tuple) and x[0] in ("deref", "ref"):
        x = strip(x[1])
    return isinstance(x, tuple) and x[0] == "arg"


def _word_base(prog, body, t):
    """Is `t` a word that reaches this function unmodified: a handle parameter's `.ptr`, what `into_raw` of a handle
    returned, what an atomic operation on the link returned (or the payload of its result), null / the taken link?"""
    t = strip(t)
    if _is_param_ptr(t):
        return True
    if isinstance(t, tuple) and t[0] == "field" and t[1] in ("0", 0) and isinstance(t[2], tuple) and t[2][0] == "variant":
        return _word_base(prog, body, t[2][2])
    if isinstance(t, tuple) and t[0] == "call":
        nt = norm(t[1])
        if nt in ("strong::Rc::into_raw", "weak::Weak::into_raw"):
            return True
        if nt.startswith("atomic::Atomic::") and nt.split("::")[-1] in ("load", "swap", "compare_exchange", "compare_exchange_weak"):
            return True
        if nt in ("std::mem::take", "std::mem::replace") or nt.endswith("::null") or nt.endswith("Default>::default"):
            return True
    if isinstance(t, tuple) and t[0] == "load":
        return _word_base(prog, body, t[1])
    if isinstance(t, tuple) and t[0] == "deref":
        x = strip(t[1])
        return isinstance(x, tuple) and x[0] == "call" and norm(x[1]) == "atomic::Atomic::get_mut"
    return False


def _word_ok(prog, body, t, allow_ts, allow_tag):
    t = strip(t)
    if _word_base(prog, body, t):
        return True
    if isinstance(t, tuple) and t[0] == "call":
        nt = norm(t[1])
        if nt.endswith("::with_timestamp") and allow_ts and t[2]:
            return _word_ok(prog, body, t[2][0], False, allow_tag)
        if nt == "ebr_impl::pointers::Tagged::with_high_tag" and allow_ts and len(t[2]) == 2 and \
                calls_in(t[2][1], "ebr_impl::default::global_epoch"):
            return _word_ok(prog, body, t[2][0], False, allow_tag)      # the stamping helper read inlined
        if nt == "ebr_impl::pointers::Tagged::with_tag" and allow_tag and len(t[2]) == 2:
            tag = strip(t[2][1])
            return isinstance(tag, tuple) and tag[0] == "arg" and _word_base(prog, body, t[2][0])
    return False


def rule_link_tag(ctx):
    """The low tag is part of the value of an AtomicRc / AtomicWeak cell.  pclass() - the ownership ledger's notion of
    'same object' - deliberately ignores tags, so the ledger cannot see a word that loses or changes its tag on the way
    into or out of a link.  This rule follows the *exact* word."""
    r = RuleResult("LINK-TAG", ["C08", "C09"],
                   "every word written to a link and every word handed back in a handle is, exactly, a parameter's `.ptr` / "
                   "`into_raw()` / what the link returned - modified only by with_timestamp (strong writes) and, in "
                   "compare_exchange_tag, by with_tag(expected, desired_tag)")
    prog = ctx.prog
    n = 0
    ex = Exec(prog, unroll=2)
    for name, b in sorted(prog.bodies.items()):
        if b.kind == "closure":
            continue
        isf = b.j.get("impl_self") or ""
        side = "strong" if "strong::AtomicRc" in isf else "weak" if "weak::AtomicWeak" in isf else None
        if side is None:
            continue
        if name in prog.auto_inline():
            continue      # a helper introduced by a refactoring: followed inlined in the methods that call it
        tagm = name.endswith("compare_exchange_tag")
        seen = set()
        for p in ex.paths(b):
            if p.exit[0] == "diverge":
                continue
            r.paths += 1
            written = []
            for e in p.events:
                if e.kind != "call" or not (e.ntarget or "").startswith("atomic::Atomic::"):
                    continue
                op = e.ntarget[len("atomic::Atomic::"):]
                if op in ("swap", "store", "new") and len(e.args) >= (1 if op == "new" else 2):
                    written.append((op, e.args[0] if op == "new" else e.args[1], e, "new value"))
                elif op in ("compare_exchange", "compare_exchange_weak"):
                    written.append((op, e.args[2], e, "new value"))
                    written.append((op, e.args[1], e, "expected value"))
            for (op, w, e, role) in written:
                key = (op, role, e.bb)
                if key in seen:
                    continue
                seen.add(key)
                n += 1
                r.functions.add(name)
                ok = _word_ok(prog, b, w, side == "strong" and role == "new value", tagm and role == "new value")
                r.instance("%s: %s of %s is an unmodified word" % (name.split("::")[-1], role, op), ok)
                if not ok:
                    r.violate(name, "write:%s:%s" % (op, role.split()[0]), "the %s of `%s` is `%s`: the word is changed on its "
                              "way into the link (the tag is part of the cell's value; only with_timestamp%s may touch it)"
                              % (role, op, show(w)[:80], " / with_tag(expected, desired_tag)" if tagm else ""), e.loc())
            if p.exit[0] == "return" and p.ret is not None:
                for x in subterms(p.ret):
                    word = None
                    if x[0] == "call" and norm(x[1]).endswith("::from_raw") and x[2]:
                        word = x[2][0]
                    elif x[0] == "agg" and x[1] in ("strong::Snapshot", "strong::Rc", "weak::Weak", "weak::WeakSnapshot") and x[3]:
                        word = x[3][0]
                    if word is None:
                        continue
                    key = ("ret", show(strip(word))[:120])
                    if key in seen:
                        continue
                    seen.add(key)
                    n += 1
                    r.functions.add(name)
                    ok = _word_ok(prog, b, word, tagm and side == "strong", tagm)
                    r.instance("%s: returned handle wraps an unmodified word" % name.split("::")[-1], ok)
                    if not ok:
                        r.violate(name, "return", "hands back `%s`: the word read from the link (or given by the caller) is "
                                  "changed before it is returned (a tag lost or rewritten)" % show(word)[:80], b.loc(0))
    r.require(n, 25, "link words followed")
    return r
