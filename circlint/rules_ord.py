"""ORD-FLOOR: necessary memory orderings.

The rules elsewhere judge *which* atomic operation happens *where*; whether an ordering is sufficient is a memory-model
proof that no static argument in reach gives.  What can be decided from the code is the converse: a short table of
accesses whose ordering is *necessary* by the textbook arguments (an owner's last use must be released before whoever
destructs acquires; a publication must be released and its consumer must acquire; leaving a critical section must be a
release).  An access below its floor is a violation; anything at or above it is not judged.  No test on x86-64 can
see these (every RMW is a full barrier there, loads are acquire, stores are release), which is the point.

Floors (role -> at least):
  count word   RMW that subtracts strong or weak (success ordering)                 Release
               path to a destruction event (dispose / pop_edges / drop / dealloc)   one Acquire access of that word before it
  epochs       Global.epoch store in try_advance                                     Release
               traversal of the participants -> that store                           fence(Acquire) or Acquire loads
               Local.epoch store in unpin / repin_without_collect                    Release
  queue        CAS that links a node (expects null)                                  Release
               load of Node.next / Queue.head before the payload is read            Acquire
  list         insert's CAS on the head                                              Release
               Entry::delete's mark                                                  Release
               Iter: loads of head / Entry.next                                      Acquire
  wrappers     AtomicEpoch / RawAtomic / AtomicRc / AtomicWeak methods pass the caller's ordering(s) on unchanged
"""
from .facts import AnalysisError
from .report import RuleResult
from .sym import Exec, norm, show, strip, subterms
from .rules_ebr import (epoch_ops, outer_field, AE, P, TRY_ADVANCE, UNPIN, REPIN_NC)
from .rules_cw import DGN, TRY_DESTRUCT

RANK = {"Relaxed": 0, "Acquire": 1, "Release": 1, "AcqRel": 2, "SeqCst": 3}


_ORD_BY_DISCR = ["Relaxed", "Release", "Acquire", "AcqRel", "SeqCst"]      # declaration order of atomic::Ordering


def ord_of(t):
    t = strip(t)
    if isinstance(t, tuple) and t[0] == "agg" and t[1].endswith("Ordering") and t[2] in RANK:
        return t[2]
    # `const PUBLISH: Ordering = Ordering::Release;` reaches the call as an evaluated constant (its discriminant)
    if isinstance(t, tuple) and t[0] == "c" and isinstance(t[1], int) and str(t[2]).endswith("Ordering") and \
            0 <= t[1] < len(_ORD_BY_DISCR):
        return _ORD_BY_DISCR[t[1]]
    return None


def has_rel(o):
    return o in ("Release", "AcqRel", "SeqCst")


def has_acq(o):
    return o in ("Acquire", "AcqRel", "SeqCst")


def _ord_args(e):
    """ordering arguments of an atomic call event, in order (constants only; parameters give None)"""
    return [ord_of(a) for a in e.args if ord_of(a) is not None or _is_ord_param(a)]


def _is_ord_param(a):
    a = strip(a)
    return isinstance(a, tuple) and a[0] == "arg" and isinstance(a[2], str) and ("order" in a[2] or a[2] in ("success", "failure", "ord"))


def _is_fence(e, pred):
    return e.kind == "call" and e.ntarget in ("atomic::fence", "std::sync::atomic::fence") and pred(ord_of(e.args[0]))


SECTIONS = {
    "ORD-COUNT": (["C01", "C03", "C04"], "count word: every RMW that gives up a strong or weak share releases; every path to a "
                  "destruction event acquires the word first"),
    "ORD-EPOCH": (["C13", "C14", "C02"], "epochs: the advance is a release after an acquire of the participants' epochs; leaving "
                  "or moving a critical section (unpin, repin_without_collect) is a release"),
    "ORD-QUEUE": (["C17", "C15"], "garbage queue: the linking CAS releases, the loads before a payload is read acquire"),
    "ORD-LIST": (["C18"], "participant list: insert and the deletion mark release, traversal loads acquire"),
    "ORD-FORWARD": (["C08", "C09", "C13", "C14", "C17", "C18"], "AtomicEpoch / RawAtomic / AtomicRc / AtomicWeak methods pass the "
                    "caller's ordering(s) to the underlying access unchanged and in position"),
}


def _all(ctx):
    if getattr(ctx, "_ord_results", None) is None:
        ctx._ord_results = _compute(ctx)
    return ctx._ord_results


def rule_ord_count(ctx):
    return _all(ctx)["ORD-COUNT"]


def rule_ord_epoch(ctx):
    return _all(ctx)["ORD-EPOCH"]


def rule_ord_queue(ctx):
    return _all(ctx)["ORD-QUEUE"]


def rule_ord_list(ctx):
    return _all(ctx)["ORD-LIST"]


def rule_ord_forward(ctx):
    return _all(ctx)["ORD-FORWARD"]


class _Cur:
    """the RuleResult the following obligations go to"""
    def __init__(self, results):
        self.results = results
        self.r = None

    def use(self, name):
        self.r = self.results[name]
        return self.r


def _compute(ctx):
    results = {k: RuleResult(k, v[0], v[1]) for k, v in SECTIONS.items()}
    cur = _Cur(results)
    r = cur.use("ORD-COUNT")
    prog = ctx.prog

    def need(fn, what, ok, got, floor, loc, why):
        cur.r.instance("%s: %s is %s (floor %s)" % (fn.split("::")[-1], what, got, floor), ok)
        if not ok:
            cur.r.violate(fn, what, "ordering %s is weaker than the necessary %s: %s" % (got, floor, why), loc)

    # ---- count word ---------------------------------------------------------------------------------------------
    nsub = 0
    fns = sorted({a["fn"] for a in ctx.scan_accesses() if a["op"] != "load"})
    for f in fns:
        r.functions.add(f)
        seen = set()
        for p in ctx.paths(f):
            r.paths += 1
            for s in ctx.sites_on_path(p):
                if s["kind"] != "rmw" or s["outcome"] != "ok" or s.get("virtual"):
                    continue      # (a write that is skipped because it would change nothing is no access)
                dec = [k for k in ("strong", "weak") if s["delta"].get(k, (0,))[0] < 0]
                if not dec:
                    continue
                e = s["event"]
                key = (e.body.name, e.bb)
                if key in seen:
                    continue
                seen.add(key)
                ords = [ord_of(a) for a in e.args if ord_of(a) is not None]
                if not ords:
                    raise AnalysisError("ORD-FLOOR: no constant ordering on the count-word RMW in %s" % f)
                nsub += 1
                need(f, "decrement:%s" % "+".join(dec), has_rel(ords[0]), ords[0], "Release", e.loc(),
                     "the owner's last accesses to the object are not ordered before the destruction that another thread "
                     "starts when it sees the count at zero")
    # destruction events: an acquire access of the word earlier on the path
    DESTRUCT = ("utils::dispose", "utils::dispose_general_node", "std::ptr::drop_in_place", "std::mem::ManuallyDrop::drop",
                "utils::RcInner::dealloc", "std::boxed::Box::from_raw")
    nd = 0
    for f in (TRY_DESTRUCT, DGN, "utils::RcInner::<T>::try_dealloc"):
        b = prog.bodies.get(f)
        if b is None:
            continue
        r.functions.add(f)
        for p in ctx.paths(f):
            if p.exit[0] == "diverge":
                continue
            ev = [(i, e) for i, e in enumerate(p.events) if e.kind == "call" and
                  (norm(e.target or "") in DESTRUCT or (e.ntarget or "").endswith("RcObject::pop_edges"))
                  and not (f == DGN and e.target == DGN)]
            if not ev:
                continue
            i0 = ev[0][0]
            acc = []
            for j, e in enumerate(p.events[:i0]):
                ae = ctx.atomic_event(e)
                if ae is None:
                    continue
                ords = [ord_of(a) for a in e.args if ord_of(a) is not None]
                if not ords:
                    continue
                op = ae[0]
                if op.startswith("compare_exchange"):
                    out = ctx.cas_outcome(p, e.result, j)
                    acc.append(ords[0] if out == "ok" else (ords[1] if len(ords) > 1 else ords[0]))
                else:
                    acc.append(ords[0])
            if not acc:
                continue
            nd += 1
            ok = any(has_acq(o) for o in acc)
            need(f, "destruct-acquire", ok, "/".join(sorted(set(acc))), "Acquire", ev[0][1].loc(),
                 "no access of the count word before the destruction acquires what former owners released: the destructor "
                 "may not see their writes")
    r.require(nsub, 3, "count-word decrements")
    if nd < 2 and not r.violations:
        r.floor_failures.append("ORD-COUNT: found %d destruction paths, expected at least 2" % nd)
    # ---- epochs -------------------------------------------------------------------------------------------------
    r = cur.use("ORD-EPOCH")
    b = prog.body(TRY_ADVANCE)
    r.functions.add(TRY_ADVANCE)
    ex2 = Exec(prog, unroll=2)
    done = set()
    for p in ex2.paths(b):
        ops = epoch_ops(p)
        st = [o for o in ops if o[2] in ("store", "compare_exchange", "swap") and o[3] == "Global.epoch"]
        if not st:
            continue
        s = st[0]
        o = [ord_of(a) for a in s[1].args if ord_of(a) is not None]
        if ("store", s[1].bb) not in done:
            done.add(("store", s[1].bb))
            need(TRY_ADVANCE, "advance-store", bool(o) and has_rel(o[0]), o[0] if o else "?", "Release", s[1].loc(),
                 "a thread that pins in the new epoch (acquire re-load in pin) must see what was unlinked before the advance")
        ll = [x for x in ops if x[2] == "load" and x[3] == "Local.epoch" and x[0] < s[0]]
        if ll:
            lo = [ord_of(a) for x in ll for a in x[1].args if ord_of(a) is not None]
            fence = any(_is_fence(e, has_acq) for e in p.events[ll[-1][0]:s[0]])
            ok = fence or all(has_acq(x) for x in lo)
            key = ("trav", tuple(sorted(set(lo))), fence)
            if key not in done:
                done.add(key)
                need(TRY_ADVANCE, "traversal-acquire", ok, "loads %s%s" % ("/".join(sorted(set(lo))), " + fence" if fence else ""),
                     "Acquire (loads or a fence before the store)", s[1].loc(),
                     "the participants' unpin stores (Release) are not acquired before the epoch is advanced: their critical "
                     "sections are not ordered before the reclamation the advance enables")
    for fn, what, why in ((UNPIN, "unpin-store", "loads of the critical section may be reordered after the store that ends it: "
                           "try_advance sees the thread unpinned while it still reads protected memory"),
                          (REPIN_NC, "repin-store", "accesses of the previous epoch may leak into the new one")):
        bb = prog.body(fn)
        r.functions.add(fn)
        seen = set()
        for p in ctx.ex.paths(bb):
            for (i, e, op, cell, base) in epoch_ops(p):
                if op in ("store", "swap") and cell == "Local.epoch" and e.bb not in seen:
                    seen.add(e.bb)
                    o = [ord_of(a) for a in e.args if ord_of(a) is not None]
                    need(fn, what, bool(o) and has_rel(o[0]), o[0] if o else "?", "Release", e.loc(), why)
    r.require(len(r.instances), 4, "epoch ordering obligations")
    # ---- queue --------------------------------------------------------------------------------------------------
    r = cur.use("ORD-QUEUE")
    Q = "ebr_impl::sync::queue::Queue::<T>::"
    RA = "ebr_impl::pointers::RawAtomic::"
    exq = Exec(prog, inline={Q + "pop_internal", Q + "pop_if_internal", Q + "push_internal"})

    def ra_events(p):
        return [(i, e, norm(e.target)[len(RA):]) for i, e in enumerate(p.events)
                if e.kind == "call" and norm(e.target or "").startswith(RA)]
    pi = prog.bodies.get(Q + "push_internal")
    if pi is not None:
        r.functions.add(pi.name)
    seen = set()
    # (without a push_internal of its own the linking CAS is judged by the `publish-cas` clause on the paths of push below)
    for p in (exq.paths(pi) if pi is not None else []):
        for (i, e, op) in ra_events(p):
            if op.startswith("compare_exchange") and outer_field(e.args[0]) == "Node.next" and e.bb not in seen:
                seen.add(e.bb)
                o = [ord_of(a) for a in e.args if ord_of(a) is not None]
                need(pi.name, "link-cas", bool(o) and has_rel(o[0]), o[0] if o else "?", "Release", e.loc(),
                     "the node's payload is written before it is linked; a consumer that acquires the link must see it")
    pops = [(fn, exq) for fn in (Q + "pop_internal", Q + "pop_if_internal") if fn in prog.bodies]
    if len(pops) < 2:
        # an internal pop function is gone (refactored away): the same obligations on the paths of the wrappers, with everything
        # the queue keeps private read inlined
        priv = {nm for nm, b in prog.bodies.items() if nm.startswith(Q) and b.kind != "closure"
                and nm.split("::")[-1] not in ("try_pop", "try_pop_if", "push", "new")}
        exfull = Exec(prog, inline=priv)
        pops = [(Q + "try_pop", exfull), (Q + "try_pop_if", exfull)]
    for fn, exq_ in pops:
        bb = prog.body(fn)
        r.functions.add(fn)
        seen = set()
        for p in exq_.paths(bb):
            rd = [i for i, e in enumerate(p.events) if e.kind == "call" and
                  ("assume_init_read" in (e.target or "") or ("Fn" in (e.target or "") and "call" in (e.target or "")))]
            if not rd:
                continue
            for (i, e, op) in ra_events(p):
                if op == "load" and i < rd[0] and outer_field(e.args[0]) in ("Node.next", "Queue.head") and \
                        (e.body.name, e.bb, outer_field(e.args[0])) not in seen:
                    seen.add((e.body.name, e.bb, outer_field(e.args[0])))
                    o = [ord_of(a) for a in e.args if ord_of(a) is not None]
                    need(fn, "load:" + outer_field(e.args[0]), bool(o) and has_acq(o[0]), o[0] if o else "?", "Acquire", e.loc(),
                         "the payload of the node reached through this pointer is read (or given to the predicate) afterwards")
    # every node pointer is published with release and acquired before the node is dereferenced (mutation sweep 3: the CASes
    # that swing head and tail, the load of tail in push): a node's fields are initialised by plain writes before it is linked,
    # and whoever reaches it through head, tail or next reads them
    privq = {nm for nm, b in prog.bodies.items() if nm.startswith(Q) and b.kind != "closure"
             and nm.split("::")[-1] not in ("try_pop", "try_pop_if", "push", "new")}
    exall = Exec(prog, inline=privq)
    seen = set()
    for fn in (Q + "push", Q + "try_pop", Q + "try_pop_if"):
        bb = prog.body(fn)
        r.functions.add(fn)
        for p in exall.paths(bb):
            evs = ra_events(p)
            for (i, e, op) in evs:
                fld = outer_field(e.args[0]) if e.args else None
                if fld not in ("Queue.head", "Queue.tail", "Node.next"):
                    continue
                key = (e.body.name, e.bb, op)
                if op.startswith("compare_exchange"):
                    if key in seen:
                        continue
                    seen.add(key)
                    o = [ord_of(a) for a in e.args if ord_of(a) is not None]
                    need(e.body.name, "publish-cas:" + fld, bool(o) and has_rel(o[0]), o[0] if o else "?", "Release", e.loc(),
                         "the pointer it installs is dereferenced by whoever loads it; the node's initialisation must happen before")
                elif op == "load":
                    used = False
                    for q in p.events[i + 1:]:
                        terms = list(q.args) if q.kind == "call" else [q.term] if q.kind == "cond" else [getattr(q, "value", None)] if q.kind == "store" else []
                        for t in terms:
                            if not isinstance(t, tuple):
                                continue
                            for x in subterms(t):
                                if x[0] == "field" and len(x) > 2 and isinstance(x[2], tuple) and e.result in list(subterms(x[2])):
                                    used = True
                                    break
                            if used:
                                break
                        if used:
                            break
                    if not used or key in seen:
                        continue
                    seen.add(key)
                    o = [ord_of(a) for a in e.args if ord_of(a) is not None]
                    need(e.body.name, "deref-load:" + fld, bool(o) and has_acq(o[0]), o[0] if o else "?", "Acquire", e.loc(),
                         "the node reached through this pointer is dereferenced afterwards")
    r.require(len(r.instances), 4, "queue ordering obligations")
    # ---- list ---------------------------------------------------------------------------------------------------
    r = cur.use("ORD-LIST")
    LI = "ebr_impl::sync::list::"
    ins = prog.body(LI + "List::<T, C>::insert")
    r.functions.add(ins.name)
    seen = set()
    for p in ctx.ex.paths(ins):
        for (i, e, op) in ra_events(p):
            if op.startswith("compare_exchange") and e.bb not in seen:
                seen.add(e.bb)
                o = [ord_of(a) for a in e.args if ord_of(a) is not None]
                need(ins.name, "insert-cas", bool(o) and has_rel(o[0]), o[0] if o else "?", "Release", e.loc(),
                     "the entry's next pointer and the participant it belongs to are initialised before it is published")
    dl = prog.body(LI + "Entry::delete")
    r.functions.add(dl.name)
    for p in ctx.ex.paths(dl):
        for (i, e, op) in ra_events(p):
            if op == "fetch_or":
                o = [ord_of(a) for a in e.args if ord_of(a) is not None]
                need(dl.name, "mark", bool(o) and has_rel(o[0]), o[0] if o else "?", "Release", e.loc(),
                     "whoever sees the mark unlinks the entry and defers the destruction of its participant: it must see "
                     "everything the exiting thread did to it")
    nx = [bb for n, bb in prog.bodies.items() if n.startswith("<" + LI + "Iter<") and n.endswith("Iterator>::next")]
    it = [prog.body(LI + "List::<T, C>::iter")] + nx
    for bb in it:
        r.functions.add(bb.name)
        seen = set()
        for p in ctx.ex.paths(bb):
            for (i, e, op) in ra_events(p):
                if op == "load" and (e.bb) not in seen:
                    seen.add(e.bb)
                    o = [ord_of(a) for a in e.args if ord_of(a) is not None]
                    need(bb.name, "load:%s" % (outer_field(e.args[0]) or "?"), bool(o) and has_acq(o[0]), o[0] if o else "?",
                         "Acquire", e.loc(), "the entry reached through this pointer is dereferenced afterwards")
    r.require(len(r.instances), 4, "list ordering obligations")
    # ---- wrappers pass orderings through ----------------------------------------------------------------------------
    r = cur.use("ORD-FORWARD")
    nwrap = 0
    WR = [n for n in prog.bodies if (n.startswith(AE) or n.startswith(RA[:-2] + "::<T>::") or
                                     n.startswith("strong::AtomicRc::<T>::") or n.startswith("weak::AtomicWeak::<T>::"))
          and prog.bodies[n].kind != "closure"]
    exw = Exec(prog, unroll=2)
    for n in sorted(WR):
        bb = prog.body(n)
        params = [(i, bb.local_name(i)) for i in range(1, bb.arg_count + 1) if bb.local_ty(i).endswith("atomic::Ordering")]
        if not params:
            continue
        r.functions.add(n)
        used = {i: set() for i, _ in params}
        consts = []
        for p in exw.paths(bb):
            for e in p.events:
                if e.kind != "call":
                    continue
                nt = e.ntarget or ""
                if not (nt.startswith("atomic::Atomic::") or nt.startswith("std::sync::atomic::Atomic::") or
                        nt.startswith(RA) or nt.startswith(AE) or e.target in WR):
                    continue      # (a sibling wrapper counts: `store` written as `self.swap(ptr, order)`)
                oa = [strip(a) for a in e.args if ord_of(a) is not None or
                      (isinstance(strip(a), tuple) and strip(a)[0] == "arg" and strip(a)[1] in used)]
                for k, a in enumerate(oa):
                    if a[0] == "arg":
                        used[a[1]].add((nt.split("::")[-1], k))
                    else:
                        consts.append((nt.split("::")[-1], k, a[2], e))
        nwrap += 1
        # each ordering parameter reaches an atomic access, in its own position (success before failure)
        order_ok = True
        pos = [sorted(k for (_, k) in used[i]) for i, _ in params]
        for idx, (i, nm) in enumerate(params):
            if not used[i]:
                order_ok = False
                r.violate(n, "ordering-dropped:" + (nm or "?"), "the caller's ordering `%s` is not passed to any atomic access: "
                          "the operation runs with an ordering the caller did not ask for" % nm, bb.loc(0))
            elif len(params) > 1 and any(k != idx for k in pos[idx]):
                order_ok = False
                r.violate(n, "ordering-swapped:" + (nm or "?"), "the orderings are passed on in a different position (success / "
                          "failure swapped)", bb.loc(0))
        for (op, k, o, e) in consts:
            if op in ("load", "store", "swap", "fetch_or", "fetch_and", "fetch_add", "fetch_sub", "compare_exchange",
                      "compare_exchange_weak") and RANK[o] < 3:
                # a literal ordering next to a forwarded one: only judged when it replaces the success ordering
                if k == 0:
                    order_ok = False
                    r.violate(n, "ordering-literal:" + op, "uses the fixed ordering %s for `%s` although the caller supplies "
                              "one" % (o, op), e.loc())
        r.instance("%s passes its ordering parameter(s) through" % n.split("::", 1)[-1], order_ok)
    r.require(nwrap, 12, "ordering-forwarding wrappers")
    return results
