#!/usr/bin/env python3
"""Regenerate /verif/MANIFEST.json from the registry (claimed properties) and the texts below."""
import json
import os
import sys

HERE = os.path.dirname(os.path.dirname(os.path.abspath(__file__)))
sys.path.insert(0, HERE)
from circlint import registry, props  # noqa

TEXT = {
 "C01": ("Decides the per-step count-word protocol on every path of every function that touches the strong count: "
         "owners never exceed counted shares (ownership ledger), increments from zero carry the token for the pending "
         "attempt, a non-atomic from-zero increment is only reachable through Rc/Snapshot, only a zero-hitting decrement "
         "hands off exactly one deferred attempt, the attempt re-checks, destruction only via EBR deferral. "
         "Not an inductive proof over interleavings.", "4.1, 4.2, 5/C01"),
 "C03": ("Decides the weak-side protocol: ledger balance of weak owners vs. weak count on every path, last-decrement "
         "defers try_dealloc which re-checks, first increment sets WEAKED in the same CAS, dealloc reachable only from "
         "try_dealloc and the dispose cascade. Composition over schedules is not decided.", "4.1, 4.2, 5/C03"),
 "C04": ("Decides: a destruct event (pop_edges / ManuallyDrop::drop) is reachable only behind a successful CAS that set "
         "DESTRUCTED after observing strong==0 (roots and cascade children), order pop_edges < drop < single release, "
         "every zero hit hands off exactly one attempt, no path of any API function or Drop impl leaks or double-releases "
         "a share, no object starts at strong 0. Eventual reclamation (liveness) is not decided.", "4.1, 4.2, 5/C04"),
 "C09": ("Decides exact weak-share transfer on every path of every AtomicWeak method, that success returns the value "
         "compared against and failure returns the moved `desired` plus the atomic operation's payload, and that Err is "
         "returned only after ptr_eq(current, expected) was false (epoch bits invisible), sibling-checked against AtomicRc. "
         "Linearizability of histories is not decided.", "4.2, 4.3, 5/C09"),
 "C10": ("Decides alloc(n) vs. owners created with symbolic multiplicities (N, count, remain) for new_many, "
         "new_many_iter, NewRcIter::{next, abort, drop}, weak_many, and the range of the count argument. "
         "The property is structural; known findings F4/F8 remain (count 0 and count >= 2^29).", "4.1, 4.2, 5/C10"),
}
NOTE = ("trusted base: rustc nightly MIR/const-eval/callee resolution, the mirfacts exporter, the circlint path reader and "
        "higher-order models (Result::map, array::from_fn, LocalKey::with, scopeguard); only the live cfg! arm (x86-64) and "
        "non-unwinding paths are judged; user pop_edges/Drop assumed to honour RcObject's contract")
TECH = {
 "C01": "typestate/ownership ledger + protocol rules over MIR paths (custom rustc_private driver)",
 "C03": "ownership ledger + protocol rules over MIR paths (custom rustc_private driver)",
 "C04": "interprocedural must-precede (CAS gate dominates destruct events) + ledger over MIR paths",
 "C09": "ownership ledger + sibling cross-check of CAS loops over MIR paths",
 "C10": "ownership ledger with symbolic multiplicities + interval check on alloc argument (MIR)",
}

def main():
    ids = [json.loads(l)["id"] for l in open(os.path.join(HERE, "properties.jsonl"))]
    checks = []
    na = []
    NA = json.load(open(os.path.join(HERE, "tools", "not_applicable.json")))
    for pid in ids:
        if pid in registry.PROPS and pid in TEXT:
            spec = registry.PROPS[pid]
            txt, ref = TEXT[pid]
            checks.append({
                "property_id": pid,
                "quick_cmd": "./check %s --tier quick" % pid,
                "thorough_cmd": "./check %s --tier thorough" % pid,
                "evidence_file": "evidence/%s.json" % pid,
                "replay_cmd_template": "./check %s --replay {path}" % pid,
                "engine": "circlint",
                "level_claimed": {"category": spec["level"], "text": txt, "design_ref": "DESIGN.md section " + ref},
                "level_note": NOTE,
                "technique": "static analysis: " + TECH.get(pid, "custom MIR rules"),
            })
        else:
            na.append({"property_id": pid, "reason": NA.get(pid, "not yet built (DESIGN.md section 9 build order); will be claimed once its rules run")})
    m = {
        "version": 1,
        "setup_cmd": "cd /verif/driver && CARGO_NET_OFFLINE=true cargo build --release --offline && cd /verif && ./tools/setup_witness.sh",
        "hooks": {"guard": "circ_verif",
                  "enable": "none: the machinery reads /repo's source through rustc (cargo +nightly check with a custom driver); no hook is compiled into circ",
                  "baseline_off_cmd": "cd /repo && cargo test --workspace --no-fail-fast --offline",
                  "source_commits": [], "add_only": True},
        "engines": [
            {"name": "mirfacts", "path": "driver", "serves_properties": ids,
             "kind_free_text": "rustc_private driver (RUSTC_WORKSPACE_WRAPPER) exporting MIR, items and evaluated consts of crate circ as JSON"},
            {"name": "circlint", "path": "circlint", "serves_properties": sorted(registry.PROPS),
             "kind_free_text": "Python rule engine: symbolic path reader over MIR (CFG, correlated-branch pruning, closure inlining, higher-order models), count-word site table, ownership ledger, who-may-call, dominance rules"},
        ],
        "checks": checks,
        "notes": "Static analysis only; nothing in circ is executed. Exit 2 = ANALYSIS-ERROR (unknown idiom / lost anchor): neither pass nor alarm. Genuine defects: KNOWN_FINDINGS.json (5 fixed by `fix:` commits in /repo, 4 keys known). See DESIGN.md.",
        "not_applicable": na,
    }
    json.dump(m, open(os.path.join(HERE, "MANIFEST.json"), "w"), indent=1)
    print("claimed:", [c["property_id"] for c in checks])

main()
