#!/usr/bin/env python3
"""Regenerate /verif/MANIFEST.json from the registry (claimed properties) and the texts below."""
import json
import os
import sys

HERE = os.path.dirname(os.path.dirname(os.path.abspath(__file__)))
sys.path.insert(0, HERE)
from circlint import registry, props  # noqa

TEXT = {
 "C01": ("Decides the per-step count-word protocol on every path of every function that touches the strong count: "
         "owners never exceed counted shares (ownership ledger), increments from zero carry the token for the pending "
         "attempt, a non-atomic from-zero increment is only reachable through Rc/Snapshot, only a zero-hitting decrement "
         "hands off exactly one deferred attempt, the attempt re-checks, destruction only via EBR deferral. "
         "Not an inductive proof over interleavings.", "4.1, 4.2, 5/C01"),
 "C03": ("Decides the weak-side protocol: ledger balance of weak owners vs. weak count on every path, last-decrement "
         "defers try_dealloc which re-checks, first increment sets WEAKED in the same CAS, dealloc reachable only from "
         "try_dealloc and the dispose cascade. Composition over schedules is not decided.", "4.1, 4.2, 5/C03"),
 "C04": ("Decides: a destruct event (pop_edges / ManuallyDrop::drop) is reachable only behind a successful CAS that set "
         "DESTRUCTED after observing strong==0 (roots and cascade children), order pop_edges < drop < single release, "
         "every zero hit hands off exactly one attempt, no path of any API function or Drop impl leaks or double-releases "
         "a share, no object starts at strong 0. Eventual reclamation (liveness) is not decided.", "4.1, 4.2, 5/C04"),
 "C09": ("Decides exact weak-share transfer on every path of every AtomicWeak method, that success returns the value "
         "compared against and failure returns the moved `desired` plus the atomic operation's payload, and that Err is "
         "returned only after ptr_eq(current, expected) was false (epoch bits invisible), sibling-checked against AtomicRc. "
         "Linearizability of histories is not decided.", "4.2, 4.3, 5/C09"),
 "C10": ("Decides alloc(n) vs. owners created with symbolic multiplicities (N, count, remain) for new_many, "
         "new_many_iter, NewRcIter::{next, abort, drop}, weak_many, and the range of the count argument. "
         "The property is structural; known findings F4/F8 remain (count 0 and count >= 2^29).", "4.1, 4.2, 5/C10"),
 "C02": ("Decides: a snapshot cannot outlive or straddle its guard (compile_fail witnesses + signature lifetimes); the epoch "
         "that becomes a count-word stamp is read pinned and stays pinned to publication; every decrement and every shared link "
         "write stamps; the cascade merges parent/link/child stamps and reclaims a non-root only past the threshold (else "
         "defers); roots are destructed only through EBR; WeakSnapshot::upgrade adds the token at zero; collection only at the "
         "outermost unpin. The grace-period argument over schedules is not decided.", "4.1, 4.3, 4.5, 4.6, 5/C02"),
 "C05": ("Decides: DESTRUCTED is set by the CAS that observed zero before any destruct event on roots and cascade children; "
         "increments fail exactly on DESTRUCTED and owners are created only on success (null -> null); the flag is never "
         "cleared; the non-atomic increment is not reachable from Weak; weak handles cannot be dereferenced (witnesses). "
         "Linearisation order of racing upgrades is not decided.", "4.1, 4.6, 5/C05"),
 "C06": ("Decides only the structural clause: children whose count hits zero are disposed by direct recursion in the same "
         "pass; a node defers itself only at the depth cap (>= 1024) or when its stamp is too recent. The numeric bound on "
         "epoch advances is a runtime quantity and is not decided.", "4.7, 5/C06"),
 "C07": ("Decides: the only recursion reachable from dispose is capped by a constant guard dominating a call with strictly "
         "increasing depth (callee- or caller-side bound); compares CAP x minimal frame with the smallest legal stack; and "
         "collections never nest (Global::collect only from the loop of Local::unpin behind the `collecting` flag that unpin "
         "alone writes), so recursion cannot restart at depth 0 through a deferred destructor. Absence of overflow for a "
         "concrete stack is not decidable statically here; F7 is a known finding.", "4.7, 5/C07"),
 "C08": ("Decides exact strong-share transfer on every path of every AtomicRc method (ledger), provenance of what is returned, "
         "that epoch bits never surface as failure (ptr_eq retry, sibling-checked), that every shared write is stamped, "
         "that take needs &mut and links/raw moves are private (witnesses). Linearizability of histories is not decided.",
         "4.2, 4.3, 4.6, 5/C08"),
 "C11": ("Abstract interpretation of the MIR of Tagged::{with_tag,tag,with_high_tag,high_tag,as_raw,is_null,ptr_eq} in a bit-"
         "provenance domain, for symbolic 64-bit words and every alignment 2^k (quick: 7 values of k, thorough: all 30): each "
         "output bit is proven to be exactly the specified input bit / constant, compositions included; plus resolved-callee "
         "check that the public accessors and formatters only go through these primitives. All obligations discharged.",
         "3.3, 4.4, 5/C11"),
 "C12": ("Layout from rustc-evaluated constants (disjoint, contiguous, covering); bit provenance of every accessor and with_*; "
         "linear forms of add_*/sub_*; the modular window: for every residue of the current epoch, symbolic large epochs "
         "(16K+c, K>=1) and concrete small ones, every true age 0..64: le(stamp, curr-K_thr) implies age >= K_thr, ages "
         "K_thr..13 classified old, and the same for merged (max) stamps; the decision site uses exactly that predicate.",
         "3.3, 4.4, 5/C12"),
 "C13": ("Decides the necessary ordering and gating conditions: pin publishes + full barrier + re-validates; try_advance "
         "refuses on a lagging pinned participant and on a stalled traversal, fences, advances by one; only bags >= 2 epochs "
         "old are taken; seal epoch is fresh; deferred functions run only from Bag::drop inside collect at the outermost "
         "unpin. The schedule-quantified property itself is not decided.", "4.5, 5/C13"),
 "C14": ("Decides: Global.epoch has a single writer which stores successor(value read at entry) only after a complete, "
         "non-stalled traversal; pin re-validates; re-pins store the pinned global epoch; Epoch arithmetic (successor = +2 "
         "keeping the pin bit, pinned/unpinned touch bit 0 only, wrapping_sub ignores it) by abstract interpretation. "
         "Monotonicity under racing advancers as a schedule property is not decided.", "4.4, 4.5, 5/C14"),
 "C15": ("Decides at-most-once by linearity (Deferred not Clone/Copy, call(self)), no deferred value is forgotten, full-bag "
         "re-queue, thread-exit hand-over, Bag::drop calls all, closure storage sound for every size/alignment, pops read and "
         "retire only on CAS success.", "4.5, 5/C15"),
 "C16": ("Decides guard counting, clear-on-outermost-only, the repin/reactivate_after sequences including the unwind edge, "
         "&mut receivers, Guard: !Send + !Sync (witnesses), Local.epoch written only through self, and that no assertion "
         "reachable from a Guard method fails on handle_count == 0 alone (F9, fixed).", "4.5, 4.6, 5/C16, 10.3"),
 "C17": ("Decides the predicate clause (head CAS control-dependent on predicate(next.data) for the very node installed, no "
         "reload) and the at-most-once clause (read/retire only on CAS success; push links with CAS-on-null and loops). "
         "FIFO order and linearizability are not decided.", "4.5, 5/C17"),
 "C18": ("Decides: a stalled traversal aborts the advance; restart-on-marked-predecessor, finalize only by the unlinking "
         "thread, insert-until-success. Completeness of a non-stalled traversal under races is not decided.", "4.5, 5/C18"),
 "C19": ("All of it: eq/partial_cmp/cmp/hash of Rc and Snapshot are exactly the Option<&T> operations applied to as_ref() "
         "(resolved callees, single path, operands in order); as_ref is None iff Tagged::is_null; ptr_eq is Tagged::ptr_eq; "
         "Eq is a marker impl. Lawfulness is then std's for Option<&T>.", "4.6, 5/C19"),
 "C20": ("Decides: no panicking TLS access (with only on a drop-free key; handle through try_with + fallback registration "
         "on the same collector), the exiting thread's bag is handed over before unlinking, no handle/bag is forgotten, no "
         "assertion reachable from a guard requires a handle (a guard outlives the fallback's temporary handle; F9, fixed). "
         "Deadlock freedom and all TLS destruction orders are not decided.", "4.5, 5/C20, 10.3"),
}
ORD = ("Necessary memory-ordering floors of the accesses involved are checked (ORD-*, DESIGN 10.7); sufficiency of orderings is "
       "not decided.")
EXTRA = {p: [ORD] for p in ("C01", "C03", "C04", "C13", "C14", "C17", "C18", "C08", "C09", "C02", "C15")}
EXTRA["C02"].append("Includes every grace-period rule of C13 (repin_without_collect callable only from unpin's loop and the "
                    "cascade: F10, fixed).")
EXTRA["C03"].append("The WeakSnapshot clause includes every grace-period rule of C13.")
EXTRA["C04"].append("'Nothing leaks / never twice' includes the run-exactly-once rules of C15 for deferred functions.")
EXTRA["C15"].append("The structural part of 'eventually' is decided: every flush and bag overflow schedules a collection, every "
                    "collection tries to advance; that finitely many rounds suffice is not.")
EXTRA["C17"].append("The retry wrappers return None only as the Ok payload of their last attempt (a lost race retries).")
EXTRA["C02"].append("A Snapshot granted by WeakSnapshot::upgrade leaves the token or the current epoch on the count word (F12, fixed).")
EXTRA.setdefault("C05", []).append("Every granting path of WeakSnapshot::upgrade's check leaves a trace on the count word (F12, fixed).")
EXTRA["C08"].append("The exact word (tag included) is followed into and out of every link (LINK-TAG).")
EXTRA["C09"].append("The exact word (tag included) is followed into and out of every link (LINK-TAG).")
EXTRA.setdefault("C06", []).append("The loop over the popped edges visits every edge (no early-terminating adaptor, no break).")
EXTRA.setdefault("C07", []).append("Every cycle of the synchronous call graph (direct calls, drop glue, local trait impls) is cut by a "
                                  "maintained re-entrancy flag or state test (REC-NO-UNBOUNDED; F15, F16 fixed).")
EXTRA["C18"].append("The traversal does not re-enter itself through defer_destroy -> incr_advance (F16, fixed).")
EXTRA.setdefault("C20", []).append("Collections do not nest across the participants registered during tear-down (F15, fixed).")
EXTRA.setdefault("C12", []).append("Every modular comparison of the cascade uses a window read after the last re-pin point (F17, fixed).")
EXTRA["C02"].append("Re-pins during a collection are gated by the guard count (F13, fixed); stamp windows are fresh (F17, fixed).")
EXTRA["C02"].append("Known finding F18: the same-pass destruction of a child is not gated on guards that pop_edges/Drop of its parent "
                    "created and kept.")
EXTRA["C01"].append("An Rc obtained by Snapshot::counted is live only if the Snapshot was: the count-word side of Snapshot "
                    "protection (which decrements stamp, how the cascade merges and judges stamps) is included.")
EXTRA["C09"].append("Address comparison means 'same object' only while the expected WeakSnapshot's block cannot be recycled: the "
                    "deferred-free protocol of the weak count (CW-WEAK-PROTOCOL) is included.")
EXTRA["C12"].append("A Modular::max/le verdict never selects whether a stamp is written on the word it was about.")
EXTRA.setdefault("C20", []).append("The thread-wide collecting flag is written only by a function that found it clear, or restored.")
for _p in ("C01", "C03", "C05"):
    EXTRA.setdefault(_p, []).append("Known finding F19: increments of the 29-bit count fields are unbounded (CW-COUNT-OVERFLOW).")
EXTRA.setdefault("C06", []).append("Count-word updates made at destruction time write no fresh stamp (a node's stamp must age).")
EXTRA["C06"].append("Known finding F20: the 4-bit stamps are never aged; beyond the window 5 of 16 residues read as too recent (MOD-AGING).")
for _p in ("C04", "C15"):
    EXTRA[_p].append("Known finding F21: pin/unpin never flush the private bag (EBR-PIN-PROGRESS).")
EXTRA["C04"].append("Known finding F14: a panicking user destructor during a collection (no unwind guard in unpin / Bag::drop).")
EXTRA["C15"].append("Known finding F14: a panicking user destructor during a collection (no unwind guard in unpin / Bag::drop).")
EXTRA["C16"] = ["unpin writes back a guard count read after the collection (F11, fixed)."]
NOTE = ("trusted base: rustc nightly MIR/const-eval/callee resolution, the mirfacts exporter, the circlint path reader and "
        "higher-order models (Result::map, array::from_fn, LocalKey::with, scopeguard); pin's publication is judged in both arms of its cfg!(x86) test, other rules in the "
        "live arm; only non-unwinding paths are judged; user pop_edges/Drop assumed to honour RcObject's contract")
TECH = {
 "C11": "abstract interpretation (bit-provenance domain) of MIR over an exhaustive partition of alignments",
 "C12": "abstract interpretation (bit provenance, linear forms, K-affine forms) of MIR + evaluated constants",
 "C14": "single-writer / value-provenance rules over MIR paths + abstract interpretation of Epoch arithmetic",
 "C02": "compile_fail witnesses + pinned-read dataflow + stamp dependence rules over MIR paths",
 "C05": "interprocedural must-precede (DESTRUCTED CAS gates destruct events) + compile_fail witnesses",
 "C06": "call-graph/handoff-kind rule over MIR paths (direct recursion vs deferral)",
 "C07": "call-graph SCC + dominating depth-guard rule + who-may-call/re-entrancy-flag rule for collect",
 "C08": "ownership ledger + provenance + sibling CAS-loop cross-check + compile_fail witnesses",
 "C13": "ordering/gating rules over MIR paths of pin/try_advance/collect (must-pass-through, who-may-call)",
 "C15": "linearity (trait impls, forget sites) + path rules over defer/finalize/Deferred::new/queue pops",
 "C16": "counting/sequence rules over MIR paths incl. unwind edge + compile_fail witnesses",
 "C17": "control-dependence rule on the head CAS of pop_if (MIR paths)",
 "C18": "path rules over list iterator/insert and try_advance's Stalled arm",
 "C19": "resolved-callee delegation check (MIR)",
 "C20": "TLS access discipline (type-resolved) + finalize hand-off path rules",
 "C01": "typestate/ownership ledger + protocol rules over MIR paths (custom rustc_private driver)",
 "C03": "ownership ledger + protocol rules over MIR paths (custom rustc_private driver)",
 "C04": "interprocedural must-precede (CAS gate dominates destruct events) + ledger over MIR paths",
 "C09": "ownership ledger + sibling cross-check of CAS loops over MIR paths",
 "C10": "ownership ledger with symbolic multiplicities + interval check on alloc argument (MIR)",
}

def main():
    ids = [json.loads(l)["id"] for l in open(os.path.join(HERE, "properties.jsonl"))]
    checks = []
    na = []
    NA = json.load(open(os.path.join(HERE, "tools", "not_applicable.json")))
    for pid in ids:
        if pid in registry.PROPS and pid in TEXT:
            spec = registry.PROPS[pid]
            txt, ref = TEXT[pid]
            txt = " ".join([txt] + EXTRA.get(pid, []))
            checks.append({
                "property_id": pid,
                "quick_cmd": "./check %s --tier quick" % pid,
                "thorough_cmd": "./check %s --tier thorough" % pid,
                "evidence_file": "evidence/%s.json" % pid,
                "replay_cmd_template": "./check %s --replay {path}" % pid,
                "engine": "circlint",
                "level_claimed": {"category": spec["level"], "text": txt, "design_ref": "DESIGN.md section " + ref},
                "level_note": NOTE,
                "technique": "static analysis: " + TECH.get(pid, "custom MIR rules"),
            })
        else:
            na.append({"property_id": pid, "reason": NA.get(pid, "not yet built (DESIGN.md section 9 build order); will be claimed once its rules run")})
    m = {
        "version": 1,
        "setup_cmd": "cd /verif/driver && CARGO_NET_OFFLINE=true cargo build --release --offline && cd /verif && ./tools/setup_witness.sh",
        "hooks": {"guard": "circ_verif",
                  "enable": "none: the machinery reads /repo's source through rustc (cargo +nightly check with a custom driver); no hook is compiled into circ",
                  "baseline_off_cmd": "cd /repo && cargo test --workspace --no-fail-fast --offline",
                  "source_commits": [], "add_only": True},
        "engines": [
            {"name": "mirfacts", "path": "driver", "serves_properties": ids,
             "kind_free_text": "rustc_private driver (RUSTC_WORKSPACE_WRAPPER) exporting MIR, items and evaluated consts of crate circ as JSON"},
            {"name": "circlint", "path": "circlint", "serves_properties": sorted(registry.PROPS),
             "kind_free_text": "Python rule engine: symbolic path reader over MIR (CFG, correlated-branch pruning, closure inlining, higher-order models), count-word site table, ownership ledger, who-may-call, dominance rules"},
        ],
        "checks": checks,
        "notes": "Static analysis only; nothing in circ is executed. Exit 2 = ANALYSIS-ERROR (unknown idiom / lost anchor): neither pass nor alarm. Genuine defects: KNOWN_FINDINGS.json (5 fixed by `fix:` commits in /repo, 4 keys known). See DESIGN.md.",
        "not_applicable": na,
    }
    json.dump(m, open(os.path.join(HERE, "MANIFEST.json"), "w"), indent=1)
    print("claimed:", [c["property_id"] for c in checks])

main()
