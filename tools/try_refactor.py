#!/usr/bin/env python3
"""try_refactor.py <diff>...  : apply each behaviour-preserving patch to a scratch copy of /repo and run ALL rules and
witnesses; every violation or analysis error is a false alarm of the checker."""
import json, os, shutil, subprocess, sys
HERE = os.path.dirname(os.path.dirname(os.path.abspath(__file__)))
sys.path.insert(0, HERE)
from circlint import selftest, props, registry  # noqa
bad = 0
for diff in sys.argv[1:]:
    d = selftest.make_scratch("/repo")
    try:
        r = subprocess.run(["patch", "-p1", "-s", "-i", os.path.abspath(diff)], cwd=d, capture_output=True, text=True)
        if r.returncode != 0:
            print("PATCH FAILED", diff, r.stdout[:300]); bad += 1; continue
        try:
            viol, errs = selftest.analyse_tree(d, witnesses=True)
        except Exception as e:
            viol, errs = {}, {"ALL": str(e)[:500]}
        status = "silent" if not viol and not errs else "FALSE ALARM"
        if viol or errs:
            bad += 1
        print("%-12s %s" % (status, diff))
        if viol: print("   violations:", json.dumps(viol)[:1500])
        if errs: print("   errors:", json.dumps(errs)[:1500])
    finally:
        shutil.rmtree(d, ignore_errors=True)
sys.exit(1 if bad else 0)
