#!/usr/bin/env python3
"""probe.py <file> <old> <new> [<file> <old> <new> ...] | probe.py --diff <patch>
Apply exact string replacements (or a unified diff) to a scratch copy of /repo, check that it still compiles
(cargo check --offline), run ALL rules in both configurations plus the witnesses, print what reports it.
A hand tool for hunting holes; not part of any check."""
import json, os, shutil, subprocess, sys
HERE = os.path.dirname(os.path.dirname(os.path.abspath(__file__)))
sys.path.insert(0, HERE)
from circlint import selftest, props, registry  # noqa

args = sys.argv[1:]
d = selftest.make_scratch("/repo")
try:
    if args and args[0] == "--diff":
        r = subprocess.run(["patch", "-p1", "-s", "-i", os.path.abspath(args[1])], cwd=d, capture_output=True, text=True)
        assert r.returncode == 0, r.stdout + r.stderr
    else:
        edits = [{"file": args[i], "old": args[i + 1], "new": args[i + 2]} for i in range(0, len(args), 3)]
        selftest.apply_edits(d, edits)
    r = subprocess.run("cargo check --offline --lib -q 2>&1 | grep -E '^error' -A6 | head -30", cwd=d, shell=True,
                       capture_output=True, text=True, env=dict(os.environ, CARGO_NET_OFFLINE="true", CARGO_TARGET_DIR=d + "/target"))
    if r.stdout.strip():
        print("DOES NOT COMPILE:\n" + r.stdout)
        sys.exit(3)
    if os.environ.get("PROBE_TEST"):
        r = subprocess.run("cargo test --offline 2>&1 | grep -E 'test result|FAILED|panicked' | head", cwd=d, shell=True,
                           capture_output=True, text=True, env=dict(os.environ, CARGO_NET_OFFLINE="true", CARGO_TARGET_DIR=d + "/target"))
        print("SUITE:", r.stdout)
    shutil.rmtree(d + "/target", ignore_errors=True)
    for dbg in (True, False):
        viol, errs = selftest.analyse_tree(d, witnesses=dbg, debug_assertions=dbg)
        print("== debug_assertions=%s" % dbg)
        print("VIOLATIONS:", json.dumps(viol, indent=1)[:2500])
        if errs:
            print("ERRORS:", json.dumps(errs, indent=1)[:1500])
        hit = sorted(pid for pid, spec in registry.PROPS.items()
                     if any(r in viol for r in spec["rules"] + spec.get("witnesses", [])))
        print("PROPERTIES REPORTING:", hit)
finally:
    shutil.rmtree(d, ignore_errors=True)
