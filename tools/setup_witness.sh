#!/bin/sh
# copy the repository's lock file into the witness harness (path dependency on /repo)
set -e
cd "$(dirname "$0")/.."
if [ -d witness ]; then
  cp /repo/Cargo.lock witness/Cargo.lock
fi
exit 0
