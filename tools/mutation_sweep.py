#!/usr/bin/env python3
"""mutation_sweep.py gen|run|judge ... : a mechanical sweep for holes in the rules (not part of any check).

  gen   : enumerate single-token / single-statement mutants of /repo/src (outside test modules, comments, assertions)
  run   : for each mutant, in one of N scratch worktree copies (outside /repo and /verif): apply, `cargo test --offline`;
          keep the SURVIVORS (compile, whole suite passes) - the existing tests cannot tell them from the original
  judge : run every rule on each survivor; what no rule reports is either an equivalent mutant or a hole, to be read by hand

State lives in the directory given as first argument after the action (e.g. /tmp/msweep); results: mutants.json,
survivors.json, judged.json.  The reviewed outcome is recorded by hand in /verif/selftest/mutation_sweep_review.md."""
import json, os, re, shutil, subprocess, sys, time, hashlib
from concurrent.futures import ProcessPoolExecutor
REPO = "/repo"
OPS = [(r"==", "!="), (r"!=", "=="), (r"<=", "<"), (r">=", ">"), (r" > ", " >= "), (r" < ", " <= "),
       (r"&&", "||"), (r"\|\|", "&&"), (r"\btrue\b", "false"), (r"\bfalse\b", "true"),
       (r"\+ 1\b", "- 1"), (r"- 1\b", "+ 1"), (r"\b0\b", "1"), (r"\b1\b", "2"), (r"\b2\b", "3"), (r"\b3\b", "2"),
       (r"\.is_ok\(\)", ".is_err()"), (r"\.is_some\(\)", ".is_none()"), (r"\.is_null\(\)", ".is_null() == false"),
       (r"!self\.", "self."), (r"!old\.", "old."), (r"\bSome\(guard\)", "None")]


def source_lines():
    out = []
    for root, _, files in os.walk(os.path.join(REPO, "src")):
        for f in sorted(files):
            if not f.endswith(".rs"):
                continue
            p = os.path.join(root, f)
            rel = os.path.relpath(p, REPO)
            lines = open(p).read().split("\n")
            intest = False
            for i, l in enumerate(lines):
                s = l.strip()
                if s.startswith("#[cfg(test)]"):
                    nxt = [x.strip() for x in lines[i + 1:i + 4] if x.strip()]
                    if nxt and nxt[0].startswith(("mod ", "pub mod ", "pub(crate) mod ")):
                        intest = True      # test modules are at the end of each file
                if intest:
                    continue
                if not s or s.startswith(("//", "#[", "#![", "use ", "pub use ", "mod ", "pub mod ", "///", "//!")):
                    continue
                if "debug_assert" in s or s.startswith(("assert!", "assert_eq!")) or "const_assert" in s:
                    continue
                out.append((rel, i, l))
    return out


OPS2 = [(r"!(?=[a-z(])", ""), (r"\.with_epoch\([^()]*(\([^()]*\))?[^()]*\)", ""), (r"\.with_destructed\(true\)", ""),
        (r"\.with_weaked\(true\)", ""), (r"\badd_strong\b", "sub_strong"), (r"\bsub_strong\b", "add_strong"),
        (r"\bfetch_add\b", "fetch_sub"), (r"\bfetch_sub\b", "fetch_add"), (r"\bwrapping_add\b", "wrapping_sub"),
        (r"\bwrapping_sub\b", "wrapping_add"), (r"\.pinned\(\)", ".unpinned()"), (r"\.unpinned\(\)", ".pinned()"),
        (r"\.successor\(\)", ""), (r"\bcompare_exchange_weak\b", "compare_exchange"), (r" && [^&|{]+(?= \{| &&| \|\||$)", ""),
        (r" \|\| [^&|{]+(?= \{| &&| \|\||$)", ""), (r"\bOk\(_\) => break\b", "Ok(_) => continue"),
        (r"\.counted\(\)", ".counted().clone()"), (r"\bforget\(([a-z_.]+)\)", r"drop(\1)"), (r"\bdrop\(([a-z_.]+)\)", r"forget(\1)"),
        (r"\bmin\b", "max"), (r"\bmax\b", "min"), (r"\b64\b", "1"), (r"\b128\b", "1"), (r"\b1024\b", "4"),
        (r"\bis_pinned\(\)", "is_pinned() == false"), (r"\.is_expired\(", ".is_expired_not(")]


def gen2():
    """second round: stronger operators - forced branches, dropped conjuncts, dropped builders, swapped siblings,
    multi-line statement deletion"""
    ms = []
    lines_by_file = {}
    for (rel, i, l) in source_lines():
        lines_by_file.setdefault(rel, {})[i] = l
        code = l.split("//")[0]
        for (pat, rep) in OPS2:
            if rep == ".is_expired_not(":
                continue
            for m in re.finditer(pat, code):
                new = l[:m.start()] + m.expand(rep) + l[m.end():]
                if new != l:
                    ms.append({"file": rel, "line": i, "old": l, "new": new, "op": "%s->%s" % (pat[:18], rep[:12])})
        s_ = code.strip()
        m = re.match(r"^(\s*)(\}? ?else )?if (?!let )(.+) \{$", code)
        if m and "cfg!" not in code:
            for forced in ("true", "false"):
                new = "%s%sif %s {" % (m.group(1), m.group(2) or "", forced)
                ms.append({"file": rel, "line": i, "old": l, "new": new, "op": "if->" + forced})
    # multi-line statement deletion: `<indent>expr(`  ...  `<indent>);`
    for rel in sorted(lines_by_file):
        full = open(os.path.join(REPO, rel)).read().split("\n")
        idxs = sorted(lines_by_file[rel])
        for i in idxs:
            l = full[i]
            ind = len(l) - len(l.lstrip())
            s_ = l.strip()
            if not s_ or s_.endswith(";") or s_.startswith(("let ", "return", "}", "if ", "match ", "for ", "while ", "loop", "pub ", "fn ", "unsafe fn", "impl", "struct", "enum")):
                continue
            if not (s_.endswith("(") or s_.endswith(",") or s_.endswith("(|| {")):
                continue
            for j in range(i + 1, min(i + 9, len(full))):
                lj = full[j]
                if len(lj) - len(lj.lstrip()) == ind and lj.strip() in (");", "});", "])"):
                    if lj.strip().endswith(";") and all((k in lines_by_file[rel]) or not full[k].strip() for k in range(i, j + 1)):
                        ms.append({"file": rel, "line": i, "old": l, "new": None, "op": "delete-multiline", "upto": j})
                    break
                if len(lj) - len(lj.lstrip()) < ind:
                    break
    return ms


SWAPS = [("old", "new"), ("head", "tail"), ("expected", "desired"), ("current", "new"), ("self", "other"), ("curr", "next"),
         ("pred", "curr"), ("success", "failure"), (".strong()", ".weak()"), ("Ok(", "Err("), ("guard_count", "handle_count"),
         ("collecting", "must_collect"), ("node_epoch", "link_epoch"), ("global_epoch", "new_epoch"), ("onto", "new"),
         ("increment_strong", "increment_weak"), ("decrement_strong", "decrement_weak"), ("try_destruct", "try_dealloc"),
         ("Acquire", "Relaxed"), ("Release", "Relaxed"), ("SeqCst", "Relaxed")]


def gen3():
    """third round: a name replaced by its sibling, adjacent statements swapped, multi-line statements deleted"""
    ms = []
    by_file = {}
    for (rel, i, l) in source_lines():
        by_file.setdefault(rel, {})[i] = l
        code = l.split("//")[0]
        for (a, b) in SWAPS:
            for (x, y) in ((a, b), (b, a)):
                if x == "Relaxed":
                    continue          # only weakenings
                if y not in ("Relaxed",) and y[0].isalpha() and not y.startswith(("increment_", "decrement_", "try_de")):
                    # the sibling must be in scope: mentioned on this line or in the few lines before
                    ctxl = " ".join(by_file[rel].get(k, "") for k in range(i - 8, i + 1))
                    if not re.search(r"\b" + re.escape(y.rstrip("(")) + r"\b", ctxl):
                        continue
                pat = re.escape(x) if not x[0].isalpha() else r"\b" + re.escape(x) + (r"\b" if x[-1].isalnum() or x[-1] == "_" else "")
                if x == "new":
                    pat = r"(?<![:.\w])new\b(?!\s*\()"
                if x == "self":
                    pat = r"\bself\b(?!\s*[,)])(?=\.)"
                for m in re.finditer(pat, code):
                    new = l[:m.start()] + y + l[m.end():]
                    ms.append({"file": rel, "line": i, "old": l, "new": new, "op": "%s->%s" % (x, y)})
    for rel in sorted(by_file):
        full = open(os.path.join(REPO, rel)).read().split("\n")
        idxs = sorted(by_file[rel])
        # adjacent single-line statements swapped
        for i in idxs:
            if i + 1 not in by_file[rel]:
                continue
            a, b = full[i], full[i + 1]
            ia, ib = len(a) - len(a.lstrip()), len(b) - len(b.lstrip())
            sa, sb = a.strip(), b.strip()
            if ia == ib and sa.endswith(";") and sb.endswith(";") and not sb.startswith(("return", "break", "continue")) \
                    and sa != sb and sa.count("(") == sa.count(")") and sb.count("(") == sb.count(")"):
                ms.append({"file": rel, "line": i, "old": a, "new": None, "op": "swap-adjacent", "swap_with": i + 1})
        # multi-line statements deleted (bracket counting)
        for i in idxs:
            l = full[i]
            sl = l.strip()
            if not sl or sl.endswith((";", "{", "}", ",")) and not sl.endswith("(") or sl.startswith(("let ", "if ", "match ", "for ", "while ", "loop", "pub", "fn ", "unsafe fn", "impl", "struct", "enum", "}", "else", "return", "#", ".")):
                continue
            depth = 0
            for j in range(i, min(i + 12, len(full))):
                cj = full[j].split("//")[0]
                depth += cj.count("(") + cj.count("{") + cj.count("[") - cj.count(")") - cj.count("}") - cj.count("]")
                if depth < 0:
                    break
                if depth == 0 and j > i and cj.strip().endswith(";"):
                    if all((k in by_file[rel]) or not full[k].strip() for k in range(i, j + 1)) and \
                            len(full[j]) - len(full[j].lstrip()) >= len(l) - len(l.lstrip()):
                        ms.append({"file": rel, "line": i, "old": l, "new": None, "op": "delete-multiline", "upto": j})
                    break
                if depth == 0 and j > i:
                    break
    return ms


def gen(state):
    ms = []
    for (rel, i, l) in source_lines():
        code = l.split("//")[0]
        # token replacements: one occurrence at a time
        for (pat, rep) in OPS:
            for m in re.finditer(pat, code):
                new = l[:m.start()] + rep + l[m.end():]
                ms.append({"file": rel, "line": i, "old": l, "new": new, "op": "%s->%s" % (pat, rep)})
        # statement deletion: a single-line statement that is not a declaration
        s = code.strip()
        if s.endswith(";") and not s.startswith(("let ", "return", "break", "continue", "type ", "const ", "static ", "pub ", "fn ", "}")) \
                and s.count("(") == s.count(")") and s.count("{") == s.count("}"):
            ms.append({"file": rel, "line": i, "old": l, "new": l[:len(l) - len(l.lstrip())] + "// (deleted) " + s, "op": "delete-stmt"})
    ms2 = gen2()
    seen = {(m["file"], m["line"], m["new"]) for m in ms}
    ms2 = [m for m in ms2 if (m["file"], m["line"], m["new"]) not in seen]
    if os.environ.get("MSWEEP_ROUND") == "3":
        seen |= {(m["file"], m["line"], m["new"]) for m in ms2}
        ms = [m for m in gen3() if (m["file"], m["line"], m.get("new")) not in seen]
        base = 2000
    elif os.environ.get("MSWEEP_ROUND") == "2":
        ms = ms2
        base = 1000
    else:
        base = 0
    for k, m in enumerate(ms):
        m["id"] = "M%04d" % (base + k)
    os.makedirs(state, exist_ok=True)
    json.dump(ms, open(os.path.join(state, "mutants.json"), "w"), indent=0)
    print(len(ms), "mutants")


def _worker_dir(state, w):
    d = os.path.join(state, "w%02d" % w)
    if not os.path.exists(d):
        subprocess.run(["git", "-C", REPO, "worktree", "add", "--detach", d], capture_output=True)
        # warm build
        subprocess.run("cargo test --offline --no-run", cwd=d, shell=True, capture_output=True,
                       env=dict(os.environ, CARGO_NET_OFFLINE="true"))
    return d


def _apply(d, m):
    p = os.path.join(d, m["file"])
    lines = open(p).read().split("\n")
    assert lines[m["line"]] == m["old"], "anchor moved"
    if m.get("swap_with") is not None:
        k = m["swap_with"]
        lines[m["line"]], lines[k] = lines[k], lines[m["line"]]
    elif m.get("upto") is not None:
        for k in range(m["line"], m["upto"] + 1):
            lines[k] = "// (deleted) " + lines[k].strip()
    else:
        lines[m["line"]] = m["new"]
    open(p, "w").write("\n".join(lines))


def _run_one(args):
    state, w, batch = args
    d = _worker_dir(state, w)
    env = dict(os.environ, CARGO_NET_OFFLINE="true", RUSTFLAGS="-Awarnings")
    out = []
    for m in batch:
        subprocess.run(["git", "checkout", "--", "src"], cwd=d, capture_output=True)
        try:
            _apply(d, m)
        except Exception as e:
            out.append(dict(m, status="apply-failed"))
            continue
        t0 = time.time()
        try:
            r = subprocess.run("cargo test --offline 2>&1", cwd=d, shell=True, capture_output=True, text=True, env=env, timeout=240)
            txt = r.stdout
            if r.returncode == 0:
                st = "survived"
            elif "error[" in txt or "error:" in txt and "could not compile" in txt:
                st = "no-compile"
            else:
                st = "killed"
        except subprocess.TimeoutExpired:
            st = "timeout"
            subprocess.run("pkill -f %s/target" % d, shell=True)
        out.append(dict(m, status=st, wall=round(time.time() - t0, 1)))
    subprocess.run(["git", "checkout", "--", "src"], cwd=d, capture_output=True)
    return out


def run(state, nworkers=12, limit=None, only_files=None):
    ms = json.load(open(os.path.join(state, "mutants.json")))
    done_p = os.path.join(state, "results.json")
    done = {m["id"]: m for m in (json.load(open(done_p)) if os.path.exists(done_p) else [])}
    todo = [m for m in ms if m["id"] not in done and (only_files is None or any(f in m["file"] for f in only_files))]
    if limit:
        todo = todo[:limit]
    print(len(todo), "to run,", len(done), "done")
    # interleave so that every worker gets mutants of every file
    batches = [todo[w::nworkers] for w in range(nworkers)]
    # small chunks so that results are saved as we go
    chunk = 8
    jobs = []
    for w, b in enumerate(batches):
        for k in range(0, len(b), chunk):
            jobs.append((state, w, b[k:k + chunk]))
    # a worker directory must not be used by two processes at once: one process per worker, sequential chunks
    per_worker = {}
    for j in jobs:
        per_worker.setdefault(j[1], []).append(j)
    with ProcessPoolExecutor(nworkers) as ex:
        futs = [ex.submit(_run_worker, per_worker[w], done_p) for w in sorted(per_worker)]
        for f in futs:
            f.result()
    res = json.load(open(done_p))
    import collections
    print(collections.Counter(m["status"] for m in res))
    json.dump([m for m in res if m["status"] == "survived"], open(os.path.join(state, "survivors.json"), "w"), indent=0)


def _run_worker(joblist, done_p):
    import fcntl
    for j in joblist:
        out = _run_one(j)
        lock = done_p + ".lock"
        with open(lock, "w") as lf:
            fcntl.flock(lf, fcntl.LOCK_EX)
            cur = json.load(open(done_p)) if os.path.exists(done_p) else []
            cur.extend(out)
            json.dump(cur, open(done_p, "w"), indent=0)
    return True


def _judge_one(m):
    sys.path.insert(0, "/verif")
    from circlint import selftest, props  # noqa
    d = selftest.make_scratch(REPO)
    try:
        _apply(d, m)
        try:
            viol, errs = selftest.analyse_tree(d)
        except Exception as e:
            viol, errs = {}, {"ALL": str(e)[:300]}
        return dict(m, rules=sorted(viol), errors=sorted(errs))
    finally:
        shutil.rmtree(d, ignore_errors=True)


def judge(state, nworkers=14):
    sv = json.load(open(os.path.join(state, "survivors.json")))
    jp = os.path.join(state, "judged.json")
    done = {m["id"]: m for m in (json.load(open(jp)) if os.path.exists(jp) else [])}
    todo = [m for m in sv if m["id"] not in done]
    print(len(todo), "to judge")
    with ProcessPoolExecutor(nworkers) as ex:
        for k, r in enumerate(ex.map(_judge_one, todo)):
            done[r["id"]] = r
            if k % 20 == 19:
                json.dump(list(done.values()), open(jp, "w"), indent=0)
    json.dump(list(done.values()), open(jp, "w"), indent=0)
    un = [m for m in done.values() if not m["rules"] and not m["errors"]]
    print(len(done), "survivors judged;", len(un), "reported by no rule")


if __name__ == "__main__":
    act, state = sys.argv[1], sys.argv[2]
    if act == "gen":
        gen(state)
    elif act == "run":
        run(state, nworkers=int(sys.argv[3]) if len(sys.argv) > 3 else 12, limit=int(sys.argv[4]) if len(sys.argv) > 4 and sys.argv[4] != "-" else None,
            only_files=sys.argv[5].split(",") if len(sys.argv) > 5 else None)
    elif act == "judge":
        judge(state)
