#!/usr/bin/env python3
"""seedmeta.py <name> <prop> <caught_by,comma> <history|-> <change> ||| <needs>"""
import json, sys
name, prop, caught, hist = sys.argv[1:5]
rest = " ".join(sys.argv[5:])
change, needs = [x.strip() for x in rest.split("|||")]
p = '/verif/seeded/%s/meta.json' % name
m = json.load(open(p))
m.update({"id": name, "property": prop, "change": change, "needs_to_manifest": needs, "caught_by": [c for c in caught.split(",") if c],
          "history": "caught by the rules as they stood when the seed arrived" if hist == "-" else hist,
          "source": "independent sub-agent given only the property text and a scratch worktree",
          "how_checked": "tools/seed.py check %s  (patch.diff applied to a scratch copy of /repo, all rules + witnesses; helper.diff, if any, only serves the demo)" % name})
json.dump(m, open(p, 'w'), indent=1)
print("ok", name)
