#!/usr/bin/env python3
"""Regenerates the seeded-changes table of DESIGN.md section 10.5 from seeded/*/meta.json."""
import glob, json, os, re
HERE = os.path.dirname(os.path.dirname(os.path.abspath(__file__)))
rows = []
for mp in sorted(glob.glob(os.path.join(HERE, "seeded", "*", "meta.json"))):
    m = json.load(open(mp))
    hist = m.get("history", "")
    when = "first" if hist.startswith("caught by the rules as they stood") or hist.startswith("caught by the rules as first") else "after"
    rows.append("| %s | %s | %s (%s) | %s | %s |" % (m["id"], m["property"], m.get("change", "").replace("|", "/"),
                m.get("needs_to_manifest", "").replace("|", "/"), ", ".join("`%s`" % c for c in m.get("caught_by", [])), when))
table = "| seed | property | change (needs) | reported by | when |\n|------|----------|----------------|-------------|------|\n" + "\n".join(rows)
p = os.path.join(HERE, "DESIGN.md")
t = open(p).read()
a = t.index("| seed | property | change (needs) | reported by | when |")
b = t.index("(The table is extended as further seeds arrive")
t = t[:a] + table + "\n\n" + t[b:]
open(p, "w").write(t)
print(len(rows), "rows; first:", sum(1 for r in rows if r.endswith("first |")), "after:", sum(1 for r in rows if r.endswith("after |")))
