#!/usr/bin/env python3
"""Seeded-change helper.
  seed.py confirm <wt> <ID> <name>   : re-run the sub-agent's claims in its scratch worktree (suite passes with the change,
                                       demo fails with it and passes without) and store patch.diff, demo and meta.json under
                                       /verif/seeded/<name>/
  seed.py check <name> [--all]       : apply /verif/seeded/<name>/patch.diff to a scratch copy of /repo and run the checks
                                       of the property (or every rule with --all); prints which rules report it
"""
import glob
import json
import os
import re
import shutil
import subprocess
import sys
import time

HERE = os.path.dirname(os.path.dirname(os.path.abspath(__file__)))
sys.path.insert(0, HERE)


def sh(cmd, cwd, timeout=1800):
    env = dict(os.environ, CARGO_NET_OFFLINE="true")
    r = subprocess.run(cmd, cwd=cwd, shell=True, capture_output=True, text=True, env=env, timeout=timeout)
    return r.returncode, r.stdout + r.stderr


def test_summary(out):
    res = []
    # one section per test binary: a binary that aborts (stack overflow, SIGSEGV) prints no `test result` line of its own
    secs = re.split(r"^\s+Running ", out, flags=re.M)[1:]
    for s in secs:
        name = re.match(r"(?:unittests )?(\S+)", s).group(1)
        m = re.search(r"test result: (\w+)\. (\d+) passed; (\d+) failed", s.split("Doc-tests")[0])
        if m:
            res.append((name, m.group(1), int(m.group(2)), int(m.group(3))))
        elif "SIGABRT" in s or "SIGSEGV" in s or "process didn't exit successfully" in s or "has overflowed its stack" in s:
            res.append((name, "ABORTED", 0, 1))
    return res


def confirm(wt, pid, name):
    dst = os.path.join(HERE, "seeded", name)
    os.makedirs(dst, exist_ok=True)
    brk = os.path.join(wt, "BREAK.diff")
    helper = os.path.join(wt, "HELPER.diff")
    demos = sorted(glob.glob(os.path.join(wt, "tests", "demo_*.rs")))
    assert os.path.exists(brk) and demos, "BREAK.diff or demo missing"
    meta = {"id": name, "property": pid, "ran": []}
    # state: break applied?
    rc, cur = sh("git diff -- src", wt)
    # 1. with the change
    t0 = time.time()
    REL = " --release" if os.environ.get("SEED_RELEASE") else ""     # RELEASE-flavoured seeds break only without debug assertions
    rc, out = sh("cargo test --offline --no-fail-fast%s 2>&1" % REL, wt)
    summ = test_summary(out)
    existing = [s for s in summ if "demo_" not in s[0]]
    demo = [s for s in summ if "demo_" in s[0] and "controls" not in s[0]]
    existing_ok = bool(existing) and all(s[1] == "ok" for s in existing)
    n_existing = sum(s[2] for s in existing)
    demo_fails = bool(demo) and any(s[1] != "ok" for s in demo)
    # a demo binary that aborts prints no summary line
    if not demo:
        demo_fails = "demo_" in out and ("error: test failed" in out or "SIGABRT" in out or "SIGSEGV" in out)
    meta["ran"].append({"cmd": "cargo test --offline --no-fail-fast%s   (change applied)" % REL, "existing_pass": existing_ok,
                        "existing_tests_passed": n_existing, "demo_fails": demo_fails,
                        "summary": summ, "wall_s": round(time.time() - t0, 1)})
    # 2. without the change
    rc, o = sh("git apply -R BREAK.diff", wt)
    assert rc == 0, "cannot revert BREAK.diff: " + o
    try:
        ok_all = True
        outs = []
        for d in demos:
            tn = os.path.basename(d)[:-3]
            rc2, out2 = sh("cargo test --offline%s --test %s 2>&1" % (REL, tn), wt)
            s2 = test_summary(out2)
            ok = rc2 == 0 and s2 and all(x[1] == "ok" for x in s2)
            ok_all = ok_all and ok
            outs.append((tn, ok, s2))
        meta["ran"].append({"cmd": "git apply -R BREAK.diff; cargo test --offline --test <demo>", "demo_passes": ok_all,
                            "summary": outs})
    finally:
        rc, o = sh("git apply BREAK.diff", wt)
        assert rc == 0, "cannot re-apply BREAK.diff: " + o
    meta["confirmed"] = bool(existing_ok and demo_fails and ok_all)
    shutil.copy(brk, os.path.join(dst, "patch.diff"))
    if os.path.exists(helper):
        shutil.copy(helper, os.path.join(dst, "helper.diff"))
    for d in demos:
        shutil.copy(d, os.path.join(dst, os.path.basename(d)))
    notes = os.path.join(wt, "NOTES.md")
    if os.path.exists(notes):
        shutil.copy(notes, os.path.join(dst, "NOTES.md"))
    with open(os.path.join(dst, "meta.json"), "w") as f:
        json.dump(meta, f, indent=1)
    print(json.dumps({k: meta[k] for k in ("id", "property", "confirmed")}), [
        (r.get("existing_pass"), r.get("existing_tests_passed"), r.get("demo_fails"), r.get("demo_passes")) for r in meta["ran"]])


def check(name, allrules=True):
    from circlint import selftest, props, registry  # noqa
    dst = os.path.join(HERE, "seeded", name)
    d = selftest.make_scratch("/repo")
    try:
        for pf in ("patch.diff",):     # helper.diff only serves the demonstration (test-only re-exports)
            p = os.path.join(dst, pf)
            if os.path.exists(p):
                r = subprocess.run(["patch", "-p1", "-s", "-i", p], cwd=d, capture_output=True, text=True)
                if r.returncode != 0:
                    print("PATCH FAILED", r.stdout, r.stderr)
                    return
        viol, errs = selftest.analyse_tree(d, witnesses=True)
        print(name, "VIOLATIONS:", json.dumps(viol, indent=1)[:3000])
        print(name, "ERRORS:", json.dumps(errs, indent=1)[:2000])
        props_hit = sorted(pid for pid, spec in registry.PROPS.items()
                           if any(r in viol for r in spec["rules"] + spec.get("witnesses", [])))
        own = None
        mp = os.path.join(dst, "meta.json")
        if os.path.exists(mp):
            own = json.load(open(mp)).get("property")
        print(name, "PROPERTIES REPORTING:", props_hit, "| own property", own, "reported:", own in props_hit)
        return viol, errs
    finally:
        shutil.rmtree(d, ignore_errors=True)


def e2e(name):
    """Run the registered quick command of the seed's own property against the patched tree (evidence redirected)."""
    import tempfile
    from circlint import selftest
    dst = os.path.join(HERE, "seeded", name)
    prop = json.load(open(os.path.join(dst, "meta.json")))["property"]
    d = selftest.make_scratch("/repo")
    ev = tempfile.mkdtemp(prefix="circ-ev-")
    try:
        r = subprocess.run(["patch", "-p1", "-s", "-i", os.path.join(dst, "patch.diff")], cwd=d, capture_output=True, text=True)
        assert r.returncode == 0, r.stdout
        env = dict(os.environ, CIRC_EVIDENCE_DIR=ev)
        r = subprocess.run([os.path.join(HERE, "check"), prop, "--tier", "quick", "--repo", d], cwd=HERE, env=env,
                           capture_output=True, text=True)
        v = [l for l in r.stdout.splitlines() if l.startswith("VIOLATION")]
        print("%-10s %s exit=%d violations=%d %s" % (name, prop, r.returncode, len(v),
                                                     [l for l in r.stdout.splitlines() if l.startswith("  rule=")][:2]))
        return r.returncode
    finally:
        shutil.rmtree(d, ignore_errors=True)
        shutil.rmtree(ev, ignore_errors=True)


if __name__ == "__main__":
    if sys.argv[1] == "e2e":
        rc = 0
        for n in sys.argv[2:] or sorted(os.listdir(os.path.join(HERE, "seeded"))):
            if e2e(n) != 1:
                rc = 1
        sys.exit(rc)
    if sys.argv[1] == "confirm":
        confirm(sys.argv[2], sys.argv[3], sys.argv[4])
    elif sys.argv[1] == "check":
        check(sys.argv[2])
